"""Finite-map extraction: reads a loop-free THIR expression built from match / if / let /
logical operators / enum and tuple constructors as a decision table, by evaluating it for
one point of a finite domain (enum variants, booleans, small integers).

This is the reader used by the table rules (T4): a `match` over an enum is a finite map, and
the map is recovered from the type-checked tree, not from text. Anything outside the
supported fragment (loops, heap mutation, unknown calls on the decision path) raises Unknown,
which rules turn into a fail-closed 'anchor-missing'.
"""
from facts import short

ORD = {-1: "Less", 0: "Equal", 1: "Greater"}


class Unknown(Exception):
    pass


class DepthExceeded(Unknown):
    """the call nests deeper than the reader was told to follow (max_depth)"""


class BreakEx(Exception):
    def __init__(self, value=(), label=None):
        self.value = value
        self.label = label      # scope id of the loop that is left (None: facts without labels -> the innermost loop)


class ContinueEx(Exception):
    def __init__(self, label=None):
        self.label = label


class ReturnEx(Exception):
    def __init__(self, value):
        self.value = value


def _deep_eq(a, b):
    """== as derive(PartialEq) gives it: a NaN payload is unequal to itself (python's container comparison would
    short-cut on object identity)"""
    if isinstance(a, float) and a != a:
        return False
    if isinstance(b, float) and b != b:
        return False
    if isinstance(a, (list, tuple)) and isinstance(b, (list, tuple)):
        return len(a) == len(b) and all(_deep_eq(x, y) for x, y in zip(a, b))
    return a == b


class Enum:
    """An enum (or struct) value: adt short name, variant, fields."""
    __slots__ = ("adt", "variant", "fields")

    def __init__(self, adt, variant, fields=None):
        self.adt = adt
        self.variant = variant
        self.fields = fields or {}

    def __eq__(self, o):
        if not (isinstance(o, Enum) and self.adt == o.adt and self.variant == o.variant and self.fields.keys() == o.fields.keys()):
            return False
        return all(_deep_eq(v, o.fields[k]) for k, v in self.fields.items())

    def __hash__(self):
        return hash((self.adt, self.variant, tuple(sorted((k, repr(v)) for k, v in self.fields.items()))))

    def __repr__(self):
        if self.fields:
            return "%s::%s(%s)" % (self.adt, self.variant, ", ".join("%s" % (v,) for v in self.fields.values()))
        return "%s::%s" % (self.adt, self.variant) if self.variant else self.adt


class Opaque:
    """A value we do not model; equality/branching on it raises Unknown."""

    def __init__(self, what="?"):
        self.what = what

    def __repr__(self):
        return "<opaque %s>" % self.what


INT_BITS = {"u8": 8, "u16": 16, "u32": 32, "u64": 64, "u128": 128, "usize": 64,
            "i8": 8, "i16": 16, "i32": 32, "i64": 64, "i128": 128, "isize": 64}


def F32(v):
    """round to single precision"""
    import struct
    try:
        return struct.unpack("f", struct.pack("f", float(v)))[0]
    except OverflowError:
        return float("inf") if v > 0 else float("-inf")


class ScopeEnv(dict):
    """Environment of a closure call: the closure's own bindings on top of the environment it captured. Variables of the
    capturing function are read from and written to that environment (HIR ids are unique, so nothing can clash)."""

    def __init__(self, parent):
        dict.__init__(self)
        self.parent = parent

    def __contains__(self, k):
        return dict.__contains__(self, k) or k in self.parent

    def __getitem__(self, k):
        if dict.__contains__(self, k):
            return dict.__getitem__(self, k)
        return self.parent[k]

    def get(self, k, default=None):
        if dict.__contains__(self, k):
            return dict.__getitem__(self, k)
        return self.parent.get(k, default)

    def __setitem__(self, k, v):
        if not dict.__contains__(self, k) and k in self.parent:
            self.parent[k] = v
        else:
            dict.__setitem__(self, k, v)


class Ref:
    """A mutable reference into a modelled container (`v.last_mut()`, `&mut v[i]`)."""

    def __init__(self, container, key):
        self.container = container
        self.key = key

    def get(self):
        return self.container[self.key]

    def set(self, v):
        self.container[self.key] = v

    def __repr__(self):
        return "&mut %r" % (self.get(),)


class HSet:
    """std::collections::HashSet model: membership by value, iteration in insertion order (or reversed when the
    interpreter is asked to, to expose order dependence)."""

    def __init__(self, items=()):
        self.items = []
        for x in items:
            self.add(x)

    def add(self, x):
        if x in self.items:
            return False
        self.items.append(x)
        return True

    def __contains__(self, x):
        return x in self.items

    def __repr__(self):
        return "HashSet%r" % (self.items,)


class HMap:
    def __init__(self):
        self.keys = []
        self.vals = {}

    def _k(self, k):
        return repr(k)

    def get(self, k):
        return self.vals.get(self._k(k), (None, None))[1] if self._k(k) in self.vals else None

    def has(self, k):
        return self._k(k) in self.vals

    def put(self, k, v):
        kk = self._k(k)
        old = self.vals[kk][1] if kk in self.vals else None
        had = kk in self.vals
        if not had:
            self.keys.append(kk)
        self.vals[kk] = (k, v)
        return had, old

    def pop(self, k):
        kk = self._k(k)
        if kk in self.vals:
            self.keys.remove(kk)
            return True, self.vals.pop(kk)[1]
        return False, None

    def items(self):
        return [self.vals[kk] for kk in self.keys]

    def __repr__(self):
        return "HashMap%r" % (self.items(),)


class MapSlot(Ref):
    """A place inside a HashMap value (entry handle / get_mut target)."""

    def __init__(self, m, k):
        self.m, self.k = m, k

    def get(self):
        return self.m.get(self.k)

    def set(self, v):
        self.m.put(self.k, v)


class FmtArg:
    def __init__(self, value, ty="", debug=False):
        self.value = value
        self.ty = ty
        self.debug = debug


class FmtArgs:
    def __init__(self, text):
        self.text = text


def rust_float_display(v, single=False):
    """`{}` of an f64 / f32: the shortest digits that read back to the same value, written positionally (never with an
    exponent), an integral value without a fraction"""
    import math
    import struct
    from decimal import Decimal
    if v != v:
        return "NaN"
    if math.isinf(v):
        return "inf" if v > 0 else "-inf"
    if single:
        txt = None
        for n in range(1, 10):
            t = "%.*e" % (n - 1, v)
            if struct.unpack("f", struct.pack("f", float(t)))[0] == v:
                txt = t
                break
        txt = txt or repr(v)
    else:
        txt = repr(v)
    out = format(Decimal(txt), "f")
    if "." in out:
        out = out.rstrip("0").rstrip(".")
    if out in ("-0", "0") and math.copysign(1.0, v) < 0:
        out = "-0"
    return out


def fmt_value(v):
    if isinstance(v, Ref):
        v = v.get()
    if isinstance(v, bool):
        return "true" if v else "false"
    if isinstance(v, (int, str)):
        return str(v)
    if isinstance(v, float):
        return rust_float_display(v)
    if isinstance(v, Enum) and len(v.fields) == 1 and "0" in v.fields and not isinstance(v.fields["0"], (Enum, Opaque)) and v.adt not in ("Option", "Result"):
        return fmt_value(v.fields["0"])
    raise Unknown("formatting of %r" % (v,))


def debug_value(v, ty=""):
    """`{:?}` of the values the reader models (derive(Debug) layout)"""
    if isinstance(v, Ref):
        v = v.get()
    if isinstance(v, bool):
        return "true" if v else "false"
    if isinstance(v, int):
        return str(v)
    if isinstance(v, float):
        t_ = rust_float_display(v, single=(ty == "f32"))
        return t_ + ".0" if ("." not in t_ and t_[-1:].isdigit()) else t_
    if isinstance(v, str):
        q_ = "'" if ty == "char" else '"'
        return q_ + v.replace("\\", "\\\\").replace('"', '\\"').replace("\n", "\\n") + q_
    if isinstance(v, tuple):
        return "(" + ", ".join(debug_value(x) for x in v) + ("," if len(v) == 1 else "") + ")"
    if isinstance(v, list):
        return "[" + ", ".join(debug_value(x) for x in v) + "]"
    if isinstance(v, Enum) and not any(isinstance(x, Opaque) for x in v.fields.values()):
        named = [k for k in v.fields if not k.isdigit()]
        head = v.variant if v.variant else v.adt
        if not v.fields:
            return head
        if named:
            return "%s { %s }" % (head, ", ".join("%s: %s" % (k, debug_value(x)) for k, x in v.fields.items()))
        return "%s(%s)" % (head, ", ".join(debug_value(v.fields[k]) for k in sorted(v.fields)))
    raise Unknown("debug formatting of %r" % (v,))


class Endless:
    """iter::repeat(x) / iter::repeat_with(f): only `take(n)` makes a table of it"""

    def __init__(self, item, call):
        self.item = item
        self.call = call


class PyFn:
    """A function item used as a value (`.map(Some)`, `.map_or(x, f)`)."""

    def __init__(self, path):
        self.path = path

    def __repr__(self):
        return "<fn %s>" % self.path


class PyClosure:
    """A closure value: its body path and the environment it was created in (upvars share HIR ids)."""

    def __init__(self, path, env):
        self.path = path
        self.env = env

    def __repr__(self):
        return "<closure %s>" % self.path


LIST_IDENTITY = ("core::slice::<impl [T]>::iter", "core::ops::deref::Deref::deref", "core::ops::deref::DerefMut::deref_mut", "core::slice::<impl [T]>::iter_mut", "core::iter::traits::collect::IntoIterator::into_iter",
                 "alloc::vec::Vec::<T, A>::as_slice", "alloc::vec::Vec::<T, A>::as_mut_slice", "core::array::<impl [T; N]>::as_slice", "core::array::<impl [T; N]>::as_mut_slice", "core::iter::traits::iterator::Iterator::copied",
                 "core::iter::traits::iterator::Iterator::cloned", "alloc::slice::<impl [T]>::to_vec")


ITER_MUT_SELF = ("next", "next_back", "nth", "nth_back", "by_ref", "any", "all", "find", "position", "rposition", "find_map", "try_fold", "try_for_each", "size_hint")
ITER_EAGER = ("sum", "product", "count", "collect", "fold", "for_each", "last", "max", "min", "max_by_key", "min_by_key", "max_by", "min_by", "unzip", "partition", "eq", "ne", "cmp", "lt", "le", "gt", "ge")
ITER_TYPES = ("core::slice::iter::", "alloc::vec::into_iter::", "alloc::vec::drain::", "core::iter::", "core::str::iter::", "core::ops::range::Range", "core::option::Iter", "core::option::IntoIter",
              "std::collections::hash", "core::array::iter::", "alloc::collections::", "core::char::", "alloc::string::Drain")


def is_iter_ty(ty):
    """Does a THIR type string name an iterator (as opposed to a collection or a reference to one)?"""
    ty = ty or ""
    while ty.startswith("&"):
        ty = ty[1:].lstrip()
        if ty.startswith("mut "):
            ty = ty[4:]
    return ty.startswith(ITER_TYPES) and not ty.startswith(("alloc::collections::btree::map::BTreeMap<", "alloc::collections::btree::set::BTreeSet<", "alloc::collections::vec_deque::VecDeque<"))


class Interp:
    def user_fmt(self, v, ty, debug, depth):
        """`{}` / `{:?}` of a value whose type has a Display / Debug impl in the analysed crates: that impl is walked with a
        String standing in for the Formatter. None when there is none (or it is a derive, whose layout debug_value knows)."""
        base = (ty or "").split("<")[0].strip()
        if not base or "::" not in base:
            return None
        want = "core::fmt::Debug" if debug else "core::fmt::Display"
        for b in self.facts.by_name.get("fmt", ()):
            if b.get("impl_trait") == want and (b.get("self_ty") or "").split("<")[0] == base and "thir" in b:
                import facts as _F
                derived = any("::debug_" in (c.get("fn") or "") for c in _F.exprs(b["thir"], "Call"))
                buf = {"s": ""}
                try:
                    r = self.apply(b, [v, Ref(buf, "s")], depth + 1)
                except Unknown:
                    if derived:
                        return None
                    raise
                if isinstance(r, Enum) and r.variant == "Ok":
                    return buf["s"]
                raise Unknown("formatting of %r fails" % (v,))
        return None

    def in_range(self, ty, r, what):
        """built-in integer arithmetic: outside the type's range the compiler's own (debug) build aborts; a release build
        wraps - either way the value the source expresses is lost, and the table says so"""
        if ty in INT_BITS and isinstance(r, int) and not isinstance(r, bool):
            bits = INT_BITS[ty]
            lo_, hi_ = (-(1 << (bits - 1)), (1 << (bits - 1)) - 1) if ty.startswith("i") else (0, (1 << bits) - 1)
            if not lo_ <= r <= hi_:
                raise Unknown("core::panicking: attempt to %s with overflow" % what)
        return r

    def user_iter_items(self, v, depth):
        """the items of an iterator type of the analysed crates, by walking its own `next` (a copy is advanced); None if it has none"""
        nb = [b_ for b_ in self.facts.by_name.get("next", ()) if (b_.get("impl_trait") or "").endswith("iterator::Iterator") and short((b_.get("self_ty") or "").split("<")[0]) == v.adt and "thir" in b_]
        if len(nb) != 1:
            return None
        import copy as _c
        holder = {"it": _c.deepcopy(v)}
        out = []
        for _ in range(self.max_loop + 1):
            r_ = self.apply(nb[0], [Ref(holder, "it")], depth + 1)
            if isinstance(r_, Enum) and r_.variant == "None":
                return out
            if not (isinstance(r_, Enum) and r_.variant == "Some"):
                raise Unknown("next of %s gives %r" % (v.adt, r_))
            out.append(r_.fields["0"])
        raise Unknown("iterator %s too long for a table" % v.adt)

    def arg_ty(self, a):
        while isinstance(a, dict) and a.get("k") in ("Scope", "Use", "Coerce") and isinstance(a.get("e"), dict) and not a.get("ty"):
            a = a["e"]
        return (a.get("ty") if isinstance(a, dict) else None) or ""

    def __init__(self, facts, max_depth=6, extern=None):
        self.facts = facts
        self.max_depth = max_depth
        self.extern = extern or {}   # callee path suffix -> python callable(args)->value
        self._extern_cache = {}
        self.max_loop = 64
        self.lets = {}                       # optional: facts.let_table(body) of the function a fragment is taken from
        self.reverse_hash_order = False      # iterate hash containers backwards (exposes dependence on hash order)
        self.formatted = []          # strings handed to the formatting machinery (diagnostic text is not modelled further)

    # ---- patterns ----------------------------------------------------
    def match_pat(self, p, v, env):
        k = p.get("k")
        if k == "Wild":
            return True
        if k == "Bind":
            if "sub" in p and not self.match_pat(p["sub"], v, env):
                return False
            env[p["id"]] = v
            return True
        if k == "Or":
            for q in p["pats"]:
                e2 = dict(env)
                if self.match_pat(q, v, e2):
                    env.update(e2)
                    return True
            return False
        if k == "Guard":
            return self.match_pat(p["sub"], v, env) and self.truth(self.ev(p["cond"], env, 0))
        if isinstance(v, Ref):
            v = v.get()
        if isinstance(v, Opaque):
            raise Unknown("pattern on opaque value %r" % v)
        if k == "Variant":
            if not isinstance(v, Enum):
                raise Unknown("variant pattern on %r" % (v,))
            if v.variant != p["variant"]:
                return False
            for sp in p["subs"]:
                fv = v.fields.get(str(sp["f"]), Opaque("field " + str(sp["f"])))
                if not self.match_pat(sp["p"], fv, env):
                    return False
            return True
        if k == "Leaf":
            for sp in p["subs"]:
                if isinstance(v, tuple):
                    fv = v[int(sp["f"])]
                elif isinstance(v, Enum):
                    fv = v.fields.get(str(sp["f"]), Opaque("field"))
                else:
                    raise Unknown("leaf pattern on %r" % (v,))
                if not self.match_pat(sp["p"], fv, env):
                    return False
            return True
        if k == "Const":
            return v == p["v"]
        if k == "Range":
            lo, hi = p["lo"], p["hi"]
            if isinstance(v, str) and len(v) == 1:
                v = ord(v)                      # a char scrutinee against a char range
            if isinstance(lo, str) and len(lo) == 1:
                lo = ord(lo)
            if isinstance(hi, str) and len(hi) == 1:
                hi = ord(hi)
            if not isinstance(v, int):
                raise Unknown("range on non-int")
            ok_lo = True if lo == "-inf" else v >= lo
            ok_hi = True if hi == "+inf" else (v <= hi if p.get("incl") else v < hi)
            return ok_lo and ok_hi
        if k == "Slice":
            if not isinstance(v, (list, tuple)):
                raise Unknown("slice pattern on %r" % (v,))
            pre, suf = p.get("prefix", []), p.get("suffix", [])
            if "slice" in p:
                if len(v) < len(pre) + len(suf):
                    return False
            elif len(v) != len(pre) + len(suf):
                return False
            for q, x in zip(pre, v):
                if not self.match_pat(q, x, env):
                    return False
            for i, q in enumerate(suf):
                if not self.match_pat(q, v[len(v) - len(suf) + i], env):
                    return False
            if "slice" in p:
                self.match_pat(p["slice"], list(v[len(pre):len(v) - len(suf)]), env)
            return True
        raise Unknown("pattern kind " + str(k))

    def truth(self, v):
        if isinstance(v, bool):
            return v
        raise Unknown("non-boolean condition %r" % (v,))

    # ---- expressions ---------------------------------------------------
    def ev(self, e, env, depth=0):
        k = e.get("k")
        if k == "Borrow" and e.get("mut") and e["e"].get("k") == "Deref":
            inner_ = self.ev(e["e"]["e"], env, depth)      # `&mut *r`: a reborrow is the same reference
            if isinstance(inner_, Ref):
                return inner_
            return inner_
        if k == "Borrow" and e.get("mut") and e["e"].get("k") == "Var":
            # `&mut local` where the local holds a value the model keeps by value (a String, a number): the reference is the slot itself
            ve = e["e"]
            key_ = ve["id"] if ve["id"] in env else (ve.get("name") if ve.get("name") in env else None)
            if key_ is not None and isinstance(env[key_], (str, int, float)):
                return Ref(env, key_)
        if k in ("Borrow", "Deref", "Coerce", "RawBorrow"):
            v = self.ev(e["e"], env, depth)
            if k == "Deref" and isinstance(v, Ref):
                return v.get()
            return v
        if k == "Lit":
            if e.get("t") == "bytes" and isinstance(e.get("b"), list):
                return list(e["b"])
            if e.get("t") == "float" and isinstance(e.get("v"), str):
                try:
                    return float(e["v"].replace("_", "").rstrip("f32").rstrip("f64") if e["v"][-3:] in ("f32", "f64") else e["v"].replace("_", ""))
                except ValueError:
                    raise Unknown("float literal " + e["v"])
            return e.get("v")
        if k == "Var":
            if e["id"] in env:
                return env[e["id"]]
            if e.get("name") in env:
                return env[e["name"]]
            if e["id"] in self.lets:                 # an unmutated temporary of the enclosing function: its initialiser
                v = self.ev(self.lets[e["id"]], env, depth)
                env[e["id"]] = v
                return v
            raise Unknown("unbound variable " + e.get("name", "?"))
        if k == "Block":
            env = env  # lets extend the same env (ids are unique)
            for s in e["stmts"]:
                if s.get("k") == "LetStmt":
                    if "init" in s:
                        v = self.ev(s["init"], env, depth)
                        if not self.match_pat(s["pat"], v, env):
                            if "else" in s:
                                self.ev(s["else"], env, depth)
                            raise Unknown("let pattern failed")
                else:
                    self.ev(s, env, depth)
            if "expr" in e:
                return self.ev(e["expr"], env, depth)
            return ()
        if k == "Match" and e.get("src", "").startswith("ForLoopDesugar"):
            return self.for_loop(e, env, depth)
        if k == "Match":
            v = self.ev(e["scrut"], env, depth)
            for arm in e["arms"]:
                env2 = env          # HIR ids are unique: pattern bindings cannot clash, and assignments made in an arm must be seen outside it
                if self.match_pat(arm["pat"], v, env2):
                    if "guard" in arm and not self.truth(self.ev(arm["guard"], env2, depth)):
                        continue
                    return self.ev(arm["body"], env2, depth)
            raise Unknown("no arm matched %r" % (v,))
        if k == "If":
            c = self.ev(e["cond"], env, depth)
            if self.truth(c):
                return self.ev(e["then"], env, depth)
            if "else" in e:
                return self.ev(e["else"], env, depth)
            return ()
        if k == "Let":
            v = self.ev(e["e"], env, depth)
            return self.match_pat(e["pat"], v, env)
        if k == "Logical":
            l = self.truth(self.ev(e["l"], env, depth))
            if e["op"] == "And":
                return l and self.truth(self.ev(e["r"], env, depth))
            return l or self.truth(self.ev(e["r"], env, depth))
        if k == "Unary":
            v = self.ev(e["e"], env, depth)
            if e["op"] == "Not":
                if isinstance(v, bool):
                    return not v
                if isinstance(v, int):
                    ty_ = e.get("ty", "")
                    if ty_.startswith("i"):
                        return ~v               # two's complement: !x == -x - 1 at any signed width
                    bits = INT_BITS.get(ty_, 64)
                    return (~v) & ((1 << bits) - 1)
            if e["op"] == "Neg" and isinstance(v, (int, float)):
                return self.in_range(e.get("ty"), -v, "negate")
            raise Unknown("unary %s on %r" % (e["op"], v))
        if k == "Binary":
            a = self.ev(e["l"], env, depth)
            b = self.ev(e["r"], env, depth)
            r_ = self.binop(e["op"], a, b)
            if e.get("ty") == "f32" and isinstance(r_, float):
                return F32(r_)                  # single precision arithmetic rounds after every operation
            if e["op"] in ("Add", "Sub", "Mul") and isinstance(a, int) and isinstance(b, int):
                return self.in_range(e.get("ty"), r_, {"Add": "add", "Sub": "subtract", "Mul": "multiply"}[e["op"]])
            return r_
        if k == "Tuple":
            return tuple(self.ev(x, env, depth) for x in e["elems"])
        if k == "Array":
            return [self.ev(x, env, depth) for x in e["elems"]]
        if k == "Repeat":
            try:
                cnt = int(str(e.get("count")).split("_")[0])
            except ValueError:
                raise Unknown("array repeat count %r" % (e.get("count"),))
            if cnt > 4096:
                raise Unknown("array too long for a table")
            v0 = self.ev(e["e"], env, depth)
            import copy as _c
            return [v0 if isinstance(v0, (bool, int, float, str)) else _c.deepcopy(v0) for _ in range(cnt)]
        if k == "Adt":
            fields = {}
            for f in e["fields"]:
                try:
                    fields[str(f["f"])] = self.ev(f["e"], env, depth)
                except Unknown as u_:
                    if "core::panicking" in str(u_):
                        raise               # an abort while a field is computed is an abort of the whole expression
                    fields[str(f["f"])] = Opaque("field " + str(f["f"]))
            if "base" in e:
                b = self.ev(e["base"], env, depth)
                if isinstance(b, Enum):
                    for kk, vv in b.fields.items():
                        fields.setdefault(kk, vv)
            return Enum(short(e["adt"]), e.get("variant"), fields)
        if k == "Field":
            v = self.ev(e["e"], env, depth)
            if isinstance(v, tuple):
                return v[int(e["name"])]
            if isinstance(v, Enum):
                if e["name"] in v.fields:
                    return v.fields[e["name"]]
                raise Unknown("field %s not modelled" % e["name"])
            if isinstance(v, Opaque):
                return Opaque(v.what + "." + e["name"])
            raise Unknown("field of %r" % (v,))
        if k == "Cast":
            v = self.ev(e["e"], env, depth)
            t = e.get("ty", "")
            if isinstance(v, bool) and t in INT_BITS:
                return int(v)
            if isinstance(v, bool) and t in ("f32", "f64"):
                return float(v)
            if isinstance(v, int) and t in INT_BITS:
                bits = INT_BITS[t]
                v &= (1 << bits) - 1                      # `as` between integers wraps (two's complement)
                if t.startswith("i") and v >= (1 << (bits - 1)):
                    v -= (1 << bits)
                return v
            if isinstance(v, int) and t in ("f32", "f64"):
                return F32(v) if t == "f32" else float(v)
            if isinstance(v, float) and t in INT_BITS:
                bits = INT_BITS[t]
                lo, hi = (-(1 << (bits - 1)), (1 << (bits - 1)) - 1) if t.startswith("i") else (0, (1 << bits) - 1)
                if v != v:
                    return 0
                if v in (float("inf"), float("-inf")):
                    return hi if v > 0 else lo
                return max(lo, min(hi, int(v)))           # float -> int saturates
            if isinstance(v, float) and t == "f32":
                return F32(v)
            if t == "char" and isinstance(v, int) and not isinstance(v, bool) and 0 <= v < 0x110000 and e.get("from") in ("u8", None):
                return chr(v)
            if isinstance(v, str) and len(v) == 1 and t in INT_BITS:
                return ord(v)
            return v
        if k == "Assign":
            val = self.ev(e["r"], env, depth)
            self.assign(e["l"], val, env, depth)
            return ()
        if k == "AssignOp":
            cur = self.ev(e["l"], env, depth)
            rhs = self.ev(e["r"], env, depth)
            op = e["op"][:-6] if e["op"].endswith("Assign") else e["op"]
            cur_ = cur.get() if isinstance(cur, Ref) else cur
            r_ = self.binop(op, cur, rhs)
            if op in ("Add", "Sub", "Mul") and isinstance(cur_, int) and isinstance(rhs, int) and not isinstance(cur_, bool):
                r_ = self.in_range(self.arg_ty(e["l"]), r_, {"Add": "add", "Sub": "subtract", "Mul": "multiply"}[op])
            self.assign(e["l"], r_, env, depth)
            return ()
        if k == "Return":
            raise ReturnEx(self.ev(e["e"], env, depth) if "e" in e else ())
        if k == "Break":
            raise BreakEx(self.ev(e["e"], env, depth) if "e" in e else (), e.get("label"))
        if k == "Loop":
            mine = e.get("scope")
            for _ in range(self.max_loop):
                try:
                    self.ev(e["body"], env, depth)
                except BreakEx as b:
                    if b.label is not None and mine is not None and b.label != mine:
                        raise               # `break 'outer`: not this loop
                    return b.value
                except ContinueEx as c_:
                    if c_.label is not None and mine is not None and c_.label != mine:
                        raise
                    continue
            raise Unknown("loop does not end within %d iterations" % self.max_loop)
        if k == "Continue":
            raise ContinueEx(e.get("label"))
        if k == "Index":
            base = self.ev(e["e"], env, depth)
            i = self.ev(e["i"], env, depth)
            if isinstance(base, (list, tuple)) and isinstance(i, int) and 0 <= i < len(base):
                return base[i]
            if isinstance(base, (list, tuple)) and isinstance(i, Enum) and i.adt.startswith("Range"):
                lo = i.fields.get("start", 0)
                hi = i.fields.get("end", len(base))
                if i.adt in ("RangeInclusive", "RangeToInclusive") and isinstance(hi, int):
                    hi += 1
                if isinstance(lo, int) and isinstance(hi, int) and 0 <= lo <= hi <= len(base):
                    return list(base[lo:hi])
                if isinstance(lo, int) and isinstance(hi, int):
                    raise Unknown("core::panicking: slice index [%r..%r] out of range for a length of %d" % (lo, hi, len(base)))
            if isinstance(base, (list, tuple, str)) and isinstance(i, int) and not isinstance(i, bool):
                raise Unknown("core::panicking: index out of bounds: the len is %d but the index is %d" % (len(base), i))
            raise Unknown("index %r[%r]" % (base, i))
        if k == "Const" or k == "Static":
            b = self.facts.bodies.get(e["path"])
            if b is not None and depth < self.max_depth:
                return self.ev(b["thir"], {}, depth + 1)
            nm = short(e["path"])
            ty = e.get("ty", "")
            if nm in ("MAX", "MIN") and ty in INT_BITS:
                bits = INT_BITS[ty]
                signed = ty.startswith("i")
                if nm == "MAX":
                    return (1 << (bits - 1)) - 1 if signed else (1 << bits) - 1
                return -(1 << (bits - 1)) if signed else 0
            if ty in ("f32", "f64"):
                fc = {"INFINITY": float("inf"), "NEG_INFINITY": float("-inf"), "NAN": float("nan"),
                      "MAX": 3.4028234663852886e38 if ty == "f32" else 1.7976931348623157e308,
                      "MIN": -3.4028234663852886e38 if ty == "f32" else -1.7976931348623157e308,
                      "EPSILON": 1.1920928955078125e-07 if ty == "f32" else 2.220446049250313e-16}
                if nm in fc:
                    return fc[nm]
            raise Unknown("const " + e["path"])
        if k == "Call":
            return self.call(e, env, depth)
        if k == "Closure":
            return PyClosure(e.get("path"), env)
        if k == "FnRef":
            pf_ = PyFn(e.get("fn") or "")
            pf_.ty = e.get("ty") or ""
            return pf_
        if k == "Zst":
            return Opaque("zst")
        raise Unknown("expression kind " + str(k))

    def assign(self, lhs, val, env, depth):
        """Store into a variable, through a modelled reference, or into a field of a modelled struct."""
        l = lhs
        while l.get("k") in ("Borrow", "Coerce"):
            l = l["e"]
        if l.get("k") == "Var":
            env[l["id"]] = val
            return
        if l.get("k") == "Deref":
            inner0 = l["e"]
            while inner0.get("k") in ("Borrow", "Coerce"):
                inner0 = inner0["e"]
            if inner0.get("k") == "Call" and short(inner0.get("fn") or "") == "index_mut":
                return self.assign(inner0, val, env, depth)
            target = self.ev(l["e"], env, depth)
            if isinstance(target, Ref):
                target.set(val)
                return
            inner = l["e"]
            while inner.get("k") in ("Borrow", "Coerce", "Deref"):
                inner = inner["e"]
            if inner.get("k") == "Var":
                cur = env.get(inner["id"])
                if (inner.get("ty") or "").startswith("&mut ") and isinstance(cur, Enum) and isinstance(val, Enum) and cur is not val:
                    # a write through a `&mut` to a modelled aggregate: aggregates are shared by reference, so the place
                    # the reference points into (a field of its parent, an element of a Vec) is this very object
                    cur.adt, cur.variant, cur.fields = val.adt, val.variant, dict(val.fields)
                    return
                env[inner["id"]] = val
                return
            raise Unknown("assignment through %r" % (target,))
        if l.get("k") == "Index" or (l.get("k") == "Call" and short(l.get("fn") or "") in ("index_mut", "index")):
            be, ie = (l["e"], l["i"]) if l.get("k") == "Index" else (l["args"][0], l["args"][1])
            base = self.ev(be, env, depth)
            if isinstance(base, Ref):
                base = base.get()
            i = self.ev(ie, env, depth)
            if isinstance(base, list) and isinstance(i, int) and 0 <= i < len(base):
                base[i] = val
                return
            if isinstance(base, list) and isinstance(i, int) and not isinstance(i, bool):
                raise Unknown("core::panicking: index out of bounds: the len is %d but the index is %d" % (len(base), i))
            raise Unknown("indexed assignment %r[%r]" % (base, i))
        if l.get("k") == "Field":
            base = self.ev(l["e"], env, depth)
            if isinstance(base, Ref):
                base = base.get()
            if isinstance(base, Enum):
                base.fields[l["name"]] = val
                return
        raise Unknown("assignment target " + str(l.get("k")))

    def for_loop(self, e, env, depth):
        """`for PAT in ITER { BODY }` over a concrete integer range or list (bounded; tables only)."""
        import facts as _F
        loops = [l for l in _F.for_loops(e) if l[3] is e]
        if not loops or loops[0][2] is None:
            raise Unknown("for-loop shape")
        pat, it, body, _ = loops[0]
        itv = self.ev(it, env, depth)
        if isinstance(itv, Enum) and itv.adt in ("Range", "RangeInclusive"):
            lo, hi = itv.fields.get("start"), itv.fields.get("end")
            if not isinstance(lo, int) or not isinstance(hi, int):
                raise Unknown("range bounds")
            seq = list(range(lo, hi + (1 if itv.adt == "RangeInclusive" else 0)))
        elif isinstance(itv, (list, tuple)):
            seq = list(itv)
        elif isinstance(itv, HSet):
            seq = self.hash_order(list(itv.items))
        elif isinstance(itv, HMap):
            seq = self.hash_order([(k, v) for k, v in itv.items()])
        elif isinstance(itv, Ref) and isinstance(itv.get(), (list, HSet, HMap)):
            g = itv.get()
            seq = list(g) if isinstance(g, list) else (self.hash_order(list(g.items)) if isinstance(g, HSet) else self.hash_order([(k, v) for k, v in g.items()]))
        elif isinstance(itv, Enum) and self.user_iter_items(itv, depth) is not None:
            seq = self.user_iter_items(itv, depth)
        else:
            raise Unknown("for over %r" % (itv,))
        if len(seq) > self.max_loop:
            raise Unknown("loop too long for a table")
        mine = None
        for n_ in _F.walk(e):
            if isinstance(n_, dict) and n_.get("k") == "Loop":
                mine = n_.get("scope")          # the desugared `loop` of this `for`
                break
        consume = isinstance(itv, list) and self.arg_ty(it).startswith("&mut ") and is_iter_ty(self.arg_ty(it))      # `for x in it.by_ref()` / `&mut it`: what is left stays in `it`
        for x in seq:
            if consume and itv:
                del itv[0]
            env2 = env
            if not self.match_pat(pat, x, env2):
                raise Unknown("loop pattern")
            try:
                self.ev(body, env2, depth)
            except BreakEx as b_:
                if b_.label is not None and mine is not None and b_.label != mine:
                    raise
                break
            except ContinueEx as c_:
                if c_.label is not None and mine is not None and c_.label != mine:
                    raise
                continue
        return ()

    def binop(self, op, a, b):
        if isinstance(a, Opaque) or isinstance(b, Opaque):
            raise Unknown("binary op on opaque")
        if op == "Eq":
            return a == b
        if op == "Ne":
            return a != b
        if isinstance(a, (int, float)) and isinstance(b, (int, float)) and not isinstance(a, bool):
            if op == "Lt":
                return a < b
            if op == "Le":
                return a <= b
            if op == "Gt":
                return a > b
            if op == "Ge":
                return a >= b
            if op == "Add":
                return a + b
            if op == "Sub":
                return a - b
            if op == "Mul":
                return a * b
            if op == "BitAnd":
                return a & b
            if op == "BitOr":
                return a | b
            if op == "Div" and (isinstance(a, float) or isinstance(b, float)):
                if b == 0:
                    import math as _m
                    return float("nan") if (a == 0 or a != a) else _m.copysign(float("inf"), a) * (_m.copysign(1.0, b))
                return a / b
            if op == "Div" and b != 0 and isinstance(a, int) and isinstance(b, int):
                return abs(a) // abs(b) * (1 if (a >= 0) == (b >= 0) else -1)
            if op == "Rem" and b != 0 and isinstance(a, int) and isinstance(b, int):
                return abs(a) % abs(b) * (1 if a >= 0 else -1)
            if op == "Shl" and isinstance(a, int) and isinstance(b, int) and 0 <= b < 128:
                return a << b
            if op == "Shr" and isinstance(a, int) and isinstance(b, int) and 0 <= b < 128:
                return a >> b
            if op == "BitXor":
                return a ^ b
        if isinstance(a, bool) and isinstance(b, bool):
            if op == "BitAnd":
                return a and b
            if op == "BitOr":
                return a or b
            if op == "BitXor":
                return a != b
        raise Unknown("binary %s on %r,%r" % (op, a, b))

    def call(self, e, env, depth):
        cal = e.get("rfn") or e.get("fn")
        gen = e.get("fn") or ""
        if cal is None:
            if isinstance(e.get("fexpr"), dict):
                callee = self.ev(e["fexpr"], env, depth)       # a function pointer / closure held in a variable or parameter
                return self.call_callable(callee, [self.ev(a, env, depth) for a in e.get("args", [])], depth)
            raise Unknown("indirect call")
        args = e.get("args", [])
        ck = (cal, gen)
        hit = self._extern_cache.get(ck, 0)
        if hit == 0:
            hit = None
            for suf, fn_ in self.extern.items():
                if cal.endswith(suf) or gen.endswith(suf):
                    hit = suf
                    break
            self._extern_cache[ck] = hit
        for suf, fn in (((hit, self.extern[hit]),) if hit is not None else ()):
            if True:
                vals = []
                for a in args:
                    try:
                        vals.append(self.ev(a, env, depth))
                    except Unknown as e:
                        vals.append(Opaque("unevaluated argument (%s)" % e))
                return fn(vals)
        if gen in ("alloc::boxed::box_assume_init_into_vec_unsafe", "alloc::slice::<impl [T]>::into_vec", "alloc::boxed::box_new"):
            # the expansion of vec![a, b, ..]: the array literal inside is the content
            import facts as _F
            for n_ in _F.walk(e):
                if isinstance(n_, dict) and n_.get("k") == "Array":
                    return [self.ev(x, env, depth) for x in n_["elems"]]
            raise Unknown("vec! expansion without an array literal")
        if gen.startswith("core::ops::function::Fn"):
            callee = self.ev(args[0], env, depth)
            tup = self.ev(args[1], env, depth) if len(args) > 1 else ()
            return self.call_callable(callee, list(tup) if isinstance(tup, (tuple, list)) else [tup], depth)
        if gen == "core::ops::try_trait::Try::branch":
            v = self.ev(args[0], env, depth)
            if isinstance(v, Enum) and v.variant in ("Ok", "Some"):
                return Enum("ControlFlow", "Continue", {"0": v.fields.get("0", ())})
            if isinstance(v, Enum) and v.variant in ("Err", "None"):
                return Enum("ControlFlow", "Break", {"0": v})
            raise Unknown("? on %r" % (v,))
        if gen == "core::ops::try_trait::FromResidual::from_residual":
            return self.ev(args[0], env, depth)
        if gen in ("core::iter::traits::collect::FromIterator::from_iter", "core::iter::traits::iterator::Iterator::collect"):
            v = self.ev(args[0], env, depth)
            if isinstance(v, Ref):
                v = v.get()
            if isinstance(v, HSet):
                v = self.hash_order(list(v.items))
            if isinstance(v, HMap):
                v = self.hash_order([(k_, x_) for k_, x_ in v.items()])
            if isinstance(v, Enum) and v.adt in ("Range", "RangeInclusive") and isinstance(v.fields.get("start"), int) and isinstance(v.fields.get("end"), int) \
                    and v.fields["end"] - v.fields["start"] <= 65536:
                v = list(range(v.fields["start"], v.fields["end"] + (1 if v.adt == "RangeInclusive" else 0)))
            if not isinstance(v, (list, tuple)):
                raise Unknown("collect of %r" % (v,))
            if isinstance(v, list) and gen.endswith("Iterator::collect") and self.arg_ty(args[0]).startswith("&mut ") and is_iter_ty(self.arg_ty(args[0])):
                v0_ = v
                v = list(v)
                del v0_[:]              # `it.by_ref().collect()` leaves `it` empty
            ty = (e.get("ty") or "").replace("std::collections::hash::set::", "").replace("std::collections::hash::map::", "").replace("std::collections::", "")
            if ty.startswith("HashSet<"):
                return HSet(v)
            if ty.startswith("HashMap<"):
                hm = HMap()
                for kv in v:
                    hm.put(kv[0], kv[1])
                return hm
            if ty in ("alloc::string::String",) and all(isinstance(x, str) for x in v):
                return "".join(v)
            if ty.startswith("core::option::Option<") and "Vec<" in ty:
                out = []
                for x in v:
                    if isinstance(x, Enum) and x.variant == "None":
                        return x
                    out.append(x.fields.get("0") if isinstance(x, Enum) and x.variant == "Some" else x)
                return Enum("Option", "Some", {"0": out})
            if "Result<" in ty.split("Vec<")[0] and "Vec<" in ty:
                out = []
                for x in v:
                    if isinstance(x, Enum) and x.variant == "Err":
                        return x
                    out.append(x.fields.get("0") if isinstance(x, Enum) and x.variant == "Ok" else x)
                return Enum("Result", "Ok", {"0": out})
            return list(v)
        if gen in ("core::slice::<impl [T]>::iter_mut", "alloc::vec::Vec::<T, A>::iter_mut") or \
                (gen == "core::iter::traits::collect::IntoIterator::into_iter" and (e.get("self") or e.get("ty") or "").startswith("&mut alloc::vec::Vec")):
            v = self.ev(args[0], env, depth)
            v = v.get() if isinstance(v, Ref) else v
            if isinstance(v, list):
                return [x if isinstance(x, (list, Enum, HSet, HMap)) else Ref(v, i) for i, x in enumerate(v)]
        if gen in ("core::iter::adapters::peekable::Peekable::<I>::peek", "core::iter::adapters::peekable::Peekable::<I>::peek_mut"):
            v = self.ev(args[0], env, depth)
            v = v.get() if isinstance(v, Ref) else v
            if isinstance(v, (list, tuple)):
                return Enum("Option", "Some", {"0": v[0]}) if v else Enum("Option", "None")
            raise Unknown("peek on %r" % (v,))
        if gen == "core::iter::sources::from_fn::from_fn" and len(args) == 1:
            c_ = self.ev(args[0], env, depth)
            out_ = []
            for _ in range(self.max_loop + 1):
                r_ = self.call_callable(c_, [], depth)
                if isinstance(r_, Enum) and r_.variant == "None":
                    return out_
                if not (isinstance(r_, Enum) and r_.variant == "Some"):
                    raise Unknown("from_fn closure result %r" % (r_,))
                out_.append(r_.fields["0"])
            raise Unknown("from_fn does not end within the table bound")
        if gen in ("core::iter::sources::repeat_with::repeat_with", "core::iter::sources::repeat::repeat", "core::iter::sources::repeat_n::repeat_n") and args:
            if gen.endswith("repeat_n"):
                v0_, n0_ = self.ev(args[0], env, depth), self.ev(args[1], env, depth)
                if isinstance(n0_, int) and n0_ <= 4096:
                    import copy as _c
                    return [v0_ if isinstance(v0_, (bool, int, float, str)) else _c.deepcopy(v0_) for _ in range(n0_)]
                raise Unknown("repeat_n count %r" % (n0_,))
            return Endless(self.ev(args[0], env, depth), gen.endswith("repeat_with"))
        if gen == "core::iter::adapters::zip::zip" and len(args) == 2:
            a0, b0 = self.ev(args[0], env, depth), self.ev(args[1], env, depth)
            a0 = a0.get() if isinstance(a0, Ref) else a0
            b0 = b0.get() if isinstance(b0, Ref) else b0
            if isinstance(a0, (list, tuple)) and isinstance(b0, (list, tuple)):
                return [(x_, y_) for x_, y_ in zip(a0, b0)]
            raise Unknown("zip of %r and %r" % (a0, b0))
        if gen in LIST_IDENTITY:
            v = self.ev(args[0], env, depth)
            if isinstance(v, Ref) and isinstance(v.get(), (HSet, HMap, list)):
                v = v.get()
            if isinstance(v, HSet):
                return self.hash_order(list(v.items))
            if isinstance(v, HMap):
                return self.hash_order([(k_, x_) for k_, x_ in v.items()])
            if gen.endswith(("Deref::deref", "DerefMut::deref_mut")):
                v1 = v.get() if isinstance(v, Ref) else v
                if isinstance(v1, Enum) and v1.adt == "Located" and "node" in v1.fields and (e.get("self") or "").startswith("rssl_text::location::Located"):
                    return v1.fields["node"]           # Located<T> derefs to its node
            if isinstance(v, list) and (gen == "core::slice::<impl [T]>::iter" or (gen.endswith("IntoIterator::into_iter") and not (e.get("self") or e.get("ty") or "").startswith("&mut ")
                                                                                       and not is_iter_ty(self.arg_ty(args[0])))):
                return list(v)          # an iterator is a value of its own: `next` consumes it, not the collection
            if isinstance(v, (list, tuple)) or gen.endswith(("Deref::deref", "DerefMut::deref_mut")):
                return v
            raise Unknown("%s on %r" % (short(gen), v))
        if gen.startswith("core::iter::traits::iterator::Iterator::") or gen.startswith("core::iter::traits::double_ended::DoubleEndedIterator::"):
            m = gen.rsplit("::", 1)[1]
            v = self.ev(args[0], env, depth)
            if isinstance(v, Ref) and isinstance(v.get(), (list, tuple)):
                v = v.get()
            if isinstance(v, Enum) and v.adt in ("Range", "RangeInclusive") and isinstance(v.fields.get("start"), int) and isinstance(v.fields.get("end"), int):
                hi_ = v.fields["end"] + (1 if v.adt == "RangeInclusive" else 0)
                if hi_ - v.fields["start"] > 65536:
                    raise Unknown("range too long for a table")
                if m == "next" and v.adt == "Range":
                    if v.fields["start"] >= hi_:
                        return Enum("Option", "None")
                    v.fields["start"] += 1          # the range is its own iterator
                    return Enum("Option", "Some", {"0": v.fields["start"] - 1})
                v = list(range(v.fields["start"], hi_))
            if isinstance(v, Enum) and m != "next":
                # an iterator type of the analysed crates (`impl Iterator for FunctionIdIterator`): its own `next` is walked until it is exhausted
                nb = [b_ for b_ in self.facts.by_name.get("next", ()) if (b_.get("impl_trait") or "").endswith("iterator::Iterator") and short((b_.get("self_ty") or "").split("<")[0]) == v.adt and "thir" in b_]
                if len(nb) == 1:
                    items_ = []
                    holder = {"it": v}
                    for _ in range(self.max_loop + 1):
                        r_ = self.apply(nb[0], [Ref(holder, "it")], depth + 1)
                        if isinstance(r_, Enum) and r_.variant == "None":
                            break
                        if not (isinstance(r_, Enum) and r_.variant == "Some"):
                            raise Unknown("next of %s gives %r" % (v.adt, r_))
                        items_.append(r_.fields["0"])
                    else:
                        raise Unknown("iterator %s too long for a table" % v.adt)
                    v = items_
            if isinstance(v, Endless):
                if m != "take":
                    raise Unknown("iterator method %s on an endless iterator" % m)
                k2 = self.ev(args[1], env, depth)
                if not isinstance(k2, int) or k2 > 4096:
                    raise Unknown("take count %r" % (k2,))
                import copy as _c
                return [self.call_callable(v.item, [], depth) if v.call else (v.item if isinstance(v.item, (bool, int, float, str)) else _c.deepcopy(v.item)) for _ in range(k2)]
            if not isinstance(v, (list, tuple)):
                raise Unknown("iterator method %s on %r" % (m, v))
            raw = v
            v = list(v)
            if m in ("by_ref", "peekable", "fuse"):
                return raw
            if isinstance(raw, list) and m not in ITER_MUT_SELF and self.arg_ty(args[0]).startswith("&mut ") and is_iter_ty(self.arg_ty(args[0])):
                # a by-value method on `it.by_ref()` / `&mut it`: what it consumes is gone from `it`
                if m == "take":
                    k2 = self.ev(args[1], env, depth)
                    if not isinstance(k2, int):
                        raise Unknown("skip/take count")
                    del raw[:k2]
                    return v[:k2]
                if m not in ITER_EAGER:
                    raise Unknown("lazy adaptor %s on a borrowed iterator" % m)
                del raw[:]
            if m == "try_for_each":
                c = self.ev(args[1], env, depth)
                for x in v:
                    if isinstance(raw, list) and raw:
                        del raw[0]
                    r_ = self.call_callable(c, [x], depth)
                    if isinstance(r_, Enum) and r_.variant in ("Err", "None", "Break"):
                        return r_
                    if not (isinstance(r_, Enum) and r_.variant in ("Ok", "Some", "Continue")):
                        raise Unknown("try_for_each closure result %r" % (r_,))
                ty_ = e.get("ty") or ""
                return Enum("Option", "Some", {"0": ()}) if ty_.startswith("core::option::Option") else (Enum("ControlFlow", "Continue", {"0": ()}) if "ControlFlow" in ty_ else Enum("Result", "Ok", {"0": ()}))
            if m in ("filter_map", "flat_map", "find_map", "for_each", "inspect"):
                c = self.ev(args[1], env, depth)
                out_ = []
                for x in v:
                    r_ = self.call_callable(c, [x], depth)
                    if m == "filter_map":
                        if isinstance(r_, Enum) and r_.variant == "Some":
                            out_.append(r_.fields.get("0"))
                        elif not (isinstance(r_, Enum) and r_.variant == "None"):
                            raise Unknown("filter_map closure result %r" % (r_,))
                    elif m == "find_map":
                        if isinstance(raw, list) and raw:
                            del raw[0]
                        if isinstance(r_, Enum) and r_.variant == "Some":
                            return r_
                    elif m == "flat_map":
                        r_ = r_.get() if isinstance(r_, Ref) else r_
                        if isinstance(r_, Enum) and r_.variant in ("Some", "None"):
                            r_ = [r_.fields["0"]] if r_.variant == "Some" else []
                        if not isinstance(r_, (list, tuple)):
                            raise Unknown("flat_map closure result %r" % (r_,))
                        out_.extend(r_)
                    elif m == "inspect":
                        out_.append(x)
                if m == "find_map":
                    return Enum("Option", "None")
                return () if m == "for_each" else out_
            if m in ("any", "all", "filter", "map", "position", "find"):
                c = self.ev(args[1], env, depth)
                if not isinstance(c, (PyClosure, PyFn)):
                    raise Unknown("iterator method %s without a closure" % m)
                rs = [self.call_callable(c, [x], depth) for x in v]
                if isinstance(raw, list) and m in ("any", "all", "position", "find"):
                    stop_ = [i for i, r in enumerate(rs) if self.truth(r) == (m != "all")]     # these take &mut self and stop at the first hit
                    del raw[:(stop_[0] + 1) if stop_ else len(raw)]
                if m == "any":
                    return any(self.truth(r) for r in rs)
                if m == "all":
                    return all(self.truth(r) for r in rs)
                if m == "filter":
                    return [x for x, r in zip(v, rs) if self.truth(r)]
                if m == "map":
                    return rs
                if m == "position":
                    for i, r in enumerate(rs):
                        if self.truth(r):
                            return Enum("Option", "Some", {"0": i})
                    return Enum("Option", "None")
                if m == "find":
                    for x, r in zip(v, rs):
                        if self.truth(r):
                            return Enum("Option", "Some", {"0": x})
                    return Enum("Option", "None")
                raise Unknown("iterator method " + m)
            if m == "zip":
                o = self.ev(args[1], env, depth)
                if isinstance(o, Ref):
                    o = o.get()
                if not isinstance(o, (list, tuple)):
                    raise Unknown("zip with %r" % (o,))
                return [(a_, b_) for a_, b_ in zip(v, o)]
            if m in ("nth", "next", "last", "next_back"):
                cons = isinstance(raw, list)        # (tuples are fixed tables built by rules; nothing consumes them twice)
                if m == "nth":
                    k_ = self.ev(args[1], env, depth)
                    ok_ = isinstance(k_, int) and 0 <= k_ < len(v)
                    if cons:
                        del raw[:(k_ + 1) if ok_ else len(raw)]
                    return Enum("Option", "Some", {"0": v[k_]}) if ok_ else Enum("Option", "None")
                if not v:
                    return Enum("Option", "None")
                if cons:
                    if m == "next":
                        del raw[0]
                    elif m == "next_back":
                        del raw[-1]
                    else:
                        del raw[:]
                return Enum("Option", "Some", {"0": v[0] if m == "next" else v[-1]})
            if m in ("rposition", "take_while", "skip_while", "partition", "max_by_key", "min_by_key", "map_while"):
                c_ = self.ev(args[1], env, depth)
                if m == "rposition":
                    for i_ in range(len(v) - 1, -1, -1):
                        if self.truth(self.call_callable(c_, [v[i_]], depth)):
                            return Enum("Option", "Some", {"0": i_})
                    return Enum("Option", "None")
                if m in ("take_while", "skip_while"):
                    i_ = 0
                    while i_ < len(v) and self.truth(self.call_callable(c_, [v[i_]], depth)):
                        i_ += 1
                    return v[:i_] if m == "take_while" else v[i_:]
                if m == "map_while":
                    out_ = []
                    for x in v:
                        r_ = self.call_callable(c_, [x], depth)
                        if not (isinstance(r_, Enum) and r_.variant == "Some"):
                            break
                        out_.append(r_.fields.get("0"))
                    return out_
                if m == "partition":
                    yes, no = [], []
                    for x in v:
                        (yes if self.truth(self.call_callable(c_, [x], depth)) else no).append(x)
                    return (yes, no)
                if not v:
                    return Enum("Option", "None")
                def ordkey2(x):
                    x = x.get() if isinstance(x, Ref) else x
                    if isinstance(x, (list, tuple)):
                        return tuple(ordkey2(y) for y in x)
                    if isinstance(x, bool):
                        return int(x)
                    if isinstance(x, (int, float, str)):
                        return x
                    raise Unknown("%s key %r" % (m, x))
                ks = [ordkey2(self.call_callable(c_, [x], depth)) for x in v]
                best = 0
                for i_ in range(1, len(v)):
                    if (m == "min_by_key" and ks[i_] < ks[best]) or (m == "max_by_key" and ks[i_] >= ks[best]):
                        best = i_
                return Enum("Option", "Some", {"0": v[best]})
            if m == "unzip":
                return ([x[0] for x in v], [x[1] for x in v])
            if m in ("eq", "ne", "lt", "le", "gt", "ge", "cmp"):
                o_ = self.ev(args[1], env, depth)
                o_ = o_.get() if isinstance(o_, Ref) else o_
                if not isinstance(o_, (list, tuple)):
                    raise Unknown("%s with %r" % (m, o_))
                dr = lambda z: z.get() if isinstance(z, Ref) else z
                a_, b_ = [dr(z) for z in v], [dr(z) for z in o_]
                if m in ("eq", "ne"):
                    same_ = len(a_) == len(b_) and all(_deep_eq(p_, q_) for p_, q_ in zip(a_, b_))
                    return same_ if m == "eq" else not same_
                if all(isinstance(z, (int, str)) and not isinstance(z, bool) for z in a_ + b_):
                    c_ = (a_ > b_) - (a_ < b_)
                    return {"lt": c_ < 0, "le": c_ <= 0, "gt": c_ > 0, "ge": c_ >= 0, "cmp": Enum("Ordering", ORD[c_])}[m]
                raise Unknown("iterator comparison")
            if m == "flatten":
                out_ = []
                for x in v:
                    x = x.get() if isinstance(x, Ref) else x
                    if isinstance(x, Enum) and x.variant in ("Some", "None", "Ok", "Err"):
                        if x.variant in ("Some", "Ok"):
                            out_.append(x.fields.get("0"))
                    elif isinstance(x, (list, tuple)):
                        out_.extend(x)
                    else:
                        raise Unknown("flatten of %r" % (x,))
                return out_
            if m == "chain":
                o_ = self.ev(args[1], env, depth)
                o_ = o_.get() if isinstance(o_, Ref) else o_
                if isinstance(o_, Enum) and o_.variant in ("Some", "None"):
                    o_ = [o_.fields["0"]] if o_.variant == "Some" else []
                if not isinstance(o_, (list, tuple)):
                    raise Unknown("chain with %r" % (o_,))
                return v + list(o_)
            if m in ("step_by",):
                k_ = self.ev(args[1], env, depth)
                if isinstance(k_, int) and k_ > 0:
                    return v[::k_]
                raise Unknown("step_by")
            if m in ("fold", "try_fold"):
                acc = self.ev(args[1], env, depth)
                fcl = self.ev(args[2], env, depth)
                for x in v:
                    acc = self.call_callable(fcl, [acc, x], depth)
                    if m == "try_fold":
                        if isinstance(acc, Enum) and acc.variant in ("Err", "None"):
                            return acc
                        if isinstance(acc, Enum) and acc.variant in ("Ok", "Some"):
                            acc = acc.fields.get("0")
                        else:
                            raise Unknown("try_fold step result %r" % (acc,))
                if m == "try_fold":
                    is_opt = "Option<" in (e.get("ty") or "").split("<")[0] + "<"
                    return Enum("Option", "Some", {"0": acc}) if (e.get("ty") or "").startswith("core::option::Option") else Enum("Result", "Ok", {"0": acc})
                return acc
            if m in ("sum", "product") and all(isinstance(x, (int, float)) and not isinstance(x, bool) for x in v):
                r_ = 0 if m == "sum" else 1
                for x in v:
                    r_ = r_ + x if m == "sum" else r_ * x
                return r_
            if m in ("last",):
                return Enum("Option", "Some", {"0": v[-1]}) if v else Enum("Option", "None")
            if m in ("min", "max"):
                if not v:
                    return Enum("Option", "None")
                def ordkey(x):
                    x = x.get() if isinstance(x, Ref) else x
                    if isinstance(x, (list, tuple)):
                        return tuple(ordkey(y) for y in x)
                    if isinstance(x, (int, float, str)) and not isinstance(x, bool):
                        return x
                    if isinstance(x, bool):
                        return int(x)
                    raise Unknown("%s of %r" % (m, x))
                ks = [ordkey(x) for x in v]
                best = 0
                for i_ in range(1, len(v)):
                    # Iterator::min keeps the first of equal elements, max the last
                    if (m == "min" and ks[i_] < ks[best]) or (m == "max" and ks[i_] >= ks[best]):
                        best = i_
                return Enum("Option", "Some", {"0": v[best]})
            if m == "count":
                return len(v)
            if m == "rev":
                return v[::-1]
            if m == "enumerate":
                return [(i, x) for i, x in enumerate(v)]
            if m in ("skip", "take"):
                k2 = self.ev(args[1], env, depth)
                if not isinstance(k2, int):
                    raise Unknown("skip/take count")
                return v[k2:] if m == "skip" else v[:k2]
            raise Unknown("iterator method " + m)
        if gen in ("alloc::vec::Vec::<T, A>::pop", "alloc::vec::Vec::<T, A>::push", "core::slice::<impl [T]>::last_mut", "core::slice::<impl [T]>::first_mut",
                   "alloc::vec::Vec::<T, A>::clear", "alloc::vec::Vec::<T, A>::new", "alloc::vec::Vec::<T>::new", "alloc::vec::Vec::<T>::with_capacity",
                   "alloc::vec::Vec::<T, A>::with_capacity", "alloc::vec::from_elem"):
            m = short(gen)
            if m in ("new", "with_capacity"):
                return []
            if m == "from_elem":
                x0, n0 = self.ev(args[0], env, depth), self.ev(args[1], env, depth)
                if isinstance(n0, int) and n0 <= 4096:
                    import copy as _c
                    return [x0 if isinstance(x0, (bool, int, float, str)) else _c.deepcopy(x0) for _ in range(n0)]
                raise Unknown("vec![x; n] with n = %r" % (n0,))
            v = self.ev(args[0], env, depth)
            if isinstance(v, Ref):
                v = v.get()
            if not isinstance(v, list):
                raise Unknown("%s on %r" % (m, v))
            if m == "pop":
                return Enum("Option", "Some", {"0": v.pop()}) if v else Enum("Option", "None")
            if m == "push":
                v.append(self.ev(args[1], env, depth))
                return ()
            if m == "clear":
                del v[:]
                return ()
            if not v:
                return Enum("Option", "None")
            return Enum("Option", "Some", {"0": Ref(v, len(v) - 1 if m == "last_mut" else 0)})
        if gen.startswith(("core::option::Option::<&T>::", "core::option::Option::<&mut T>::")) and short(gen) in ("copied", "cloned"):
            v = self.ev(args[0], env, depth)
            if isinstance(v, Enum) and v.variant == "Some" and isinstance(v.fields.get("0"), Ref):
                return Enum("Option", "Some", {"0": v.fields["0"].get()})
            return v
        if gen in ("core::option::Option::<T>::take", "core::option::Option::<T>::replace", "core::option::Option::<T>::insert", "core::option::Option::<T>::get_or_insert_with",
                   "core::option::Option::<T>::get_or_insert"):
            tgt = self.ev(args[0], env, depth)
            cur = tgt.get() if isinstance(tgt, Ref) else tgt
            if not (isinstance(cur, Enum) and cur.variant in ("Some", "None")):
                raise Unknown("%s on %r" % (short(gen), cur))
            m_ = short(gen)
            if m_ == "take":
                new_ = Enum("Option", "None")
            elif m_ in ("replace", "insert"):
                new_ = Enum("Option", "Some", {"0": self.ev(args[1], env, depth)})
            elif cur.variant == "Some":
                new_ = cur
            else:
                a1 = self.ev(args[1], env, depth)
                new_ = Enum("Option", "Some", {"0": self.call_callable(a1, [], depth) if m_.endswith("_with") else a1})
            if new_ is not cur:
                if isinstance(tgt, Ref):
                    tgt.set(new_)
                else:
                    self.assign(args[0], new_, env, depth)
            if m_ in ("take", "replace"):
                return cur
            inner = new_.fields.get("0")
            return inner if isinstance(inner, (list, Enum, HSet, HMap)) else Ref(new_.fields, "0")
        if (gen.startswith("core::option::Option::<T>::") or gen.startswith("core::result::Result::<T, E>::")) and \
                short(gen) not in ("is_some", "is_none", "is_ok", "is_err"):
            if short(gen) == "unwrap_or_default":
                v0 = self.ev(args[0], env, depth)
                if isinstance(v0, Enum) and v0.variant in ("Some", "Ok"):
                    return v0.fields.get("0")
                ty_ = e.get("ty") or ""
                if ty_.startswith("alloc::vec::Vec"):
                    return []
                if ty_ in INT_BITS:
                    return 0
                if ty_ in ("alloc::string::String", "&str"):
                    return ""
                if ty_ == "bool":
                    return False
                raise Unknown("default of " + ty_)
            return self.option_method(short(gen), self.ev(args[0], env, depth), args[1:], env, depth)
        if gen in ("core::bool::<impl bool>::then_some", "core::bool::<impl bool>::then"):
            c0 = self.truth(self.ev(args[0], env, depth))
            if not c0:
                return Enum("Option", "None")
            v1 = self.ev(args[1], env, depth)
            return Enum("Option", "Some", {"0": v1 if short(gen) == "then_some" else self.call_callable(v1, [], depth)})
        if gen.startswith("core::num::<impl ") and short(gen) in ("next_multiple_of", "next_power_of_two", "max", "min", "pow", "abs", "unsigned_abs",
                                                                  "wrapping_add", "wrapping_sub", "wrapping_mul", "checked_add", "checked_sub", "checked_mul", "saturating_sub",
                                                                  "wrapping_rem", "wrapping_div", "wrapping_shl", "wrapping_shr", "wrapping_neg", "wrapping_abs", "checked_div", "checked_rem",
                                                                  "checked_neg", "checked_shl", "checked_shr", "checked_rem_euclid", "checked_div_euclid",
                                                                  "wrapping_rem_euclid", "wrapping_div_euclid"):
            m = short(gen)
            ty = gen[len("core::num::<impl "):].split(">")[0]
            a0 = self.ev(args[0], env, depth)
            rest = [self.ev(x, env, depth) for x in args[1:]]
            if not isinstance(a0, int) or any(not isinstance(x, int) for x in rest):
                raise Unknown("%s on non-integers" % m)
            bits = INT_BITS.get(ty, 64)
            lo, hi = (-(1 << (bits - 1)), (1 << (bits - 1)) - 1) if ty.startswith("i") else (0, (1 << bits) - 1)

            def wrapv(v):
                v &= (1 << bits) - 1
                return v - (1 << bits) if ty.startswith("i") and v > hi else v
            if m == "next_multiple_of":
                if rest[0] == 0:
                    raise Unknown("core::panicking: next_multiple_of(0)")
                r = ((a0 + rest[0] - 1) // rest[0]) * rest[0]
                if r > hi:
                    raise Unknown("core::panicking: next_multiple_of overflow")
                return r
            if m == "next_power_of_two":
                r = 1
                while r < a0:
                    r <<= 1
                return r
            if m in ("max", "min"):
                return max(a0, rest[0]) if m == "max" else min(a0, rest[0])
            if m in ("abs", "unsigned_abs"):
                return abs(a0)
            def tdiv(x, y):
                return abs(x) // abs(y) * (1 if (x >= 0) == (y >= 0) else -1)

            def trem(x, y):
                return abs(x) % abs(y) * (1 if x >= 0 else -1)
            if m == "wrapping_abs":
                return wrapv(abs(a0))
            if m in ("wrapping_neg", "checked_neg"):
                r = -a0
                if m == "wrapping_neg":
                    return wrapv(r)
                return Enum("Option", "Some", {"0": r}) if lo <= r <= hi else Enum("Option", "None")
            if m in ("wrapping_shl", "wrapping_shr"):
                sh = rest[0] & (bits - 1)       # the shift amount is masked to the width
                return wrapv(a0 << sh) if m == "wrapping_shl" else (a0 >> sh)
            if m in ("checked_shl", "checked_shr"):
                if not 0 <= rest[0] < bits:
                    return Enum("Option", "None")
                return Enum("Option", "Some", {"0": wrapv(a0 << rest[0]) if m == "checked_shl" else (a0 >> rest[0])})
            if m in ("checked_rem_euclid", "checked_div_euclid", "wrapping_rem_euclid", "wrapping_div_euclid"):
                if rest[0] == 0:
                    if m.startswith("checked_"):
                        return Enum("Option", "None")
                    raise Unknown("core::panicking: attempt to divide by zero")
                rm_ = a0 % abs(rest[0])
                q_ = (a0 - rm_) // abs(rest[0])
                r = rm_ if "rem" in m else (q_ if rest[0] > 0 else -q_)
                overflow = ty.startswith("i") and a0 == lo and rest[0] == -1
                if m.startswith("wrapping_"):
                    return wrapv(r)
                return Enum("Option", "None") if overflow else Enum("Option", "Some", {"0": r})
            if m in ("wrapping_div", "wrapping_rem", "checked_div", "checked_rem"):
                if rest[0] == 0:
                    if m.startswith("checked_"):
                        return Enum("Option", "None")
                    raise Unknown("core::panicking: division by zero")
                r = tdiv(a0, rest[0]) if m.endswith("div") else trem(a0, rest[0])
                if m.startswith("wrapping_"):
                    return wrapv(r)
                overflow = ty.startswith("i") and a0 == lo and rest[0] == -1
                return Enum("Option", "None") if overflow else Enum("Option", "Some", {"0": r})
            if m.startswith("wrapping_"):
                return wrapv({"add": a0 + rest[0], "sub": a0 - rest[0], "mul": a0 * rest[0]}[m[9:]])
            if m.startswith("checked_"):
                r = {"add": a0 + rest[0], "sub": a0 - rest[0], "mul": a0 * rest[0]}[m[8:]]
                return Enum("Option", "Some", {"0": r}) if lo <= r <= hi else Enum("Option", "None")
            if m == "saturating_sub":
                return max(lo, a0 - rest[0])
            if m == "pow":
                return a0 ** rest[0]
        if gen in ("core::ops::bit::BitAnd::bitand", "core::ops::bit::BitOr::bitor", "core::ops::bit::BitXor::bitxor"):
            a0, b0 = self.ev(args[0], env, depth), self.ev(args[1], env, depth)
            a0 = a0.get() if isinstance(a0, Ref) else a0
            b0 = b0.get() if isinstance(b0, Ref) else b0
            return self.binop({"bitand": "BitAnd", "bitor": "BitOr", "bitxor": "BitXor"}[short(gen)], a0, b0)
        if gen in ("core::cmp::Ord::max", "core::cmp::Ord::min", "core::cmp::max", "core::cmp::min"):
            a0, b0 = self.ev(args[0], env, depth), self.ev(args[1], env, depth)
            if isinstance(a0, (int, float)) and isinstance(b0, (int, float)):
                return max(a0, b0) if gen.endswith("max") else min(a0, b0)
            raise Unknown("max/min of non-numbers")
        if gen in ("core::convert::TryFrom::try_from", "core::convert::TryInto::try_into"):
            v = self.ev(args[0], env, depth)
            ty = (e.get("ty") or "")
            tgt = None
            for k_ in INT_BITS:
                if "Result<%s," % k_ in ty.replace("core::result::", ""):
                    tgt = k_
            if isinstance(v, int) and not isinstance(v, bool) and tgt:
                bits = INT_BITS[tgt]
                lo, hi = (-(1 << (bits - 1)), (1 << (bits - 1)) - 1) if tgt.startswith("i") else (0, (1 << bits) - 1)
                return Enum("Result", "Ok", {"0": v}) if lo <= v <= hi else Enum("Result", "Err", {"0": Opaque("TryFromIntError")})
            raise Unknown("try_from of %r to %s" % (v, ty))
        if gen.startswith(("std::collections::hash::set::HashSet", "std::collections::hash::map::HashMap", "std::collections::hash::map::Entry",
                           "std::collections::hash::map::OccupiedEntry", "std::collections::hash::map::VacantEntry")):
            return self.hash_method(gen, args, env, depth)
        if gen in ("alloc::slice::<impl [T]>::sort", "core::slice::<impl [T]>::sort_unstable", "alloc::slice::<impl [T]>::sort_by", "core::slice::<impl [T]>::sort_unstable_by",
                   "alloc::slice::<impl [T]>::sort_by_key", "core::slice::<impl [T]>::sort_unstable_by_key"):
            import functools
            v = self.ev(args[0], env, depth)
            if isinstance(v, Ref):
                v = v.get()
            if not isinstance(v, list):
                raise Unknown("sort of %r" % (v,))

            def keyof(x):
                if isinstance(x, Ref):
                    x = x.get()
                if isinstance(x, Enum):
                    return (x.variant or "", tuple(keyof(y) for y in x.fields.values()))
                if isinstance(x, (list, tuple)):
                    return tuple(keyof(y) for y in x)
                if isinstance(x, (int, float, str, bool)):
                    return x
                raise Unknown("ordering of %r" % (x,))
            m = short(gen)
            if m in ("sort", "sort_unstable"):
                v.sort(key=keyof)
            elif m.endswith("by_key"):
                c = self.ev(args[1], env, depth)
                v.sort(key=lambda x: keyof(self.call_callable(c, [x], depth)))
            else:
                c = self.ev(args[1], env, depth)

                def cmp(a_, b_):
                    r = self.call_callable(c, [a_, b_], depth)
                    if isinstance(r, Enum) and r.variant in ("Less", "Equal", "Greater"):
                        return {"Less": -1, "Equal": 0, "Greater": 1}[r.variant]
                    raise Unknown("comparator result %r" % (r,))
                v.sort(key=functools.cmp_to_key(cmp))
            return ()
        if gen in ("alloc::vec::Vec::<T, A>::retain", "alloc::vec::Vec::<T, A>::retain_mut"):
            v = self.ev(args[0], env, depth)
            c = self.ev(args[1], env, depth)
            if isinstance(v, Ref):
                v = v.get()
            if not isinstance(v, list):
                raise Unknown("retain on %r" % (v,))
            keep = [x for x in list(v) if self.truth(self.call_callable(c, [x], depth))]
            v[:] = keep
            return ()
        if gen in ("core::iter::traits::collect::Extend::extend", "alloc::vec::Vec::<T, A>::extend_from_slice", "alloc::vec::Vec::<T, A>::append"):
            v = self.ev(args[0], env, depth)
            o = self.ev(args[1], env, depth)
            if isinstance(v, Ref):
                v = v.get()
            if isinstance(o, Ref):
                o = o.get()
            if isinstance(v, list) and isinstance(o, (list, tuple)):
                v.extend(o)
                if short(gen) == "append" and isinstance(o, list):
                    del o[:]
                return ()
            if isinstance(v, HSet) and isinstance(o, (list, tuple, HSet)):
                for x_ in (self.hash_order(list(o.items)) if isinstance(o, HSet) else o):
                    v.add(x_.get() if isinstance(x_, Ref) else x_)
                return ()
            if isinstance(v, HMap) and isinstance(o, (list, tuple, HMap)):
                for kv in (self.hash_order(list(o.items())) if isinstance(o, HMap) else o):
                    v.put(kv[0], kv[1])
                return ()
            if isinstance(v, str) and isinstance(o, (list, tuple, str)) and all(isinstance(x, str) for x in o):
                # String::extend(chars / strs)
                self.assign(args[0], v + "".join(o), env, depth)
                return ()
            raise Unknown("%s of %r with %r" % (short(gen), v, o))
        if gen in ("core::option::Option::<T>::is_some", "core::option::Option::<T>::is_none", "core::result::Result::<T, E>::is_ok", "core::result::Result::<T, E>::is_err"):
            v = self.ev(args[0], env, depth)
            if isinstance(v, Enum) and v.variant in ("Some", "None", "Ok", "Err"):
                return v.variant == {"is_some": "Some", "is_none": "None", "is_ok": "Ok", "is_err": "Err"}[short(gen)]
            raise Unknown("%s of %r" % (short(gen), v))
        if gen in ("core::slice::<impl [T]>::get", "core::slice::<impl [T]>::get_mut"):
            v = self.ev(args[0], env, depth)
            i = self.ev(args[1], env, depth)
            if isinstance(v, Ref):
                v = v.get()
            if isinstance(v, (list, tuple)) and isinstance(i, int):
                if 0 <= i < len(v):
                    return Enum("Option", "Some", {"0": v[i] if short(gen) == "get" or isinstance(v[i], (Enum, list)) else Ref(v, i)})
                return Enum("Option", "None")
            if isinstance(v, (list, tuple)) and isinstance(i, Enum) and i.adt.startswith("Range"):
                lo, hi = i.fields.get("start", 0), i.fields.get("end", len(v))
                if i.adt in ("RangeInclusive", "RangeToInclusive") and isinstance(hi, int):
                    hi += 1
                if isinstance(lo, int) and isinstance(hi, int) and 0 <= lo <= hi <= len(v):
                    return Enum("Option", "Some", {"0": list(v[lo:hi])})
                return Enum("Option", "None")
            raise Unknown("get(%r) on %r" % (i, v))
        if gen in ("core::slice::<impl [T]>::split_first", "core::slice::<impl [T]>::split_last", "core::slice::<impl [T]>::first", "core::slice::<impl [T]>::last"):
            v = self.ev(args[0], env, depth)
            if not isinstance(v, (list, tuple)):
                raise Unknown("%s of %r" % (short(gen), v))
            v = list(v)
            if not v:
                return Enum("Option", "None")
            m = short(gen)
            if m == "split_first":
                return Enum("Option", "Some", {"0": (v[0], v[1:])})
            if m == "split_last":
                return Enum("Option", "Some", {"0": (v[-1], v[:-1])})
            return Enum("Option", "Some", {"0": v[0] if m == "first" else v[-1]})
        if gen in ("core::slice::<impl [T]>::is_empty", "alloc::vec::Vec::<T, A>::is_empty"):
            v = self.ev(args[0], env, depth)
            if isinstance(v, (list, tuple)):
                return len(v) == 0
            raise Unknown("is_empty of %r" % (v,))
        if gen in ("alloc::fmt::format", "core::hint::must_use", "alloc::fmt::format::format_inner"):
            v = self.ev(args[0], env, depth)
            if isinstance(v, FmtArgs):
                return v.text
            if gen == "core::hint::must_use":
                return v
            raise Unknown("format of %r" % (v,))
        if gen.startswith("core::fmt::"):
            # formatting machinery, modelled for plain `{}` / `{:?}` templates: arguments are evaluated (a slice that
            # aborts must abort here too) and the text is assembled
            m = short(gen)
            if m.startswith("new_") and "Argument" in gen:
                return FmtArg(self.ev(args[0], env, depth), (args[0].get("ty") or "").replace("&", "").strip(), debug=(m == "new_debug"))
            if "Arguments" in gen:
                import facts as _F
                tmpl = None
                vals = []
                for a in args:
                    sa = _F.strip(a)
                    if sa.get("k") == "Lit" and sa.get("t") == "bytes":
                        tmpl = _F.decode_fmt(sa["b"])
                    elif sa.get("k") == "Lit" and sa.get("t") == "str":
                        tmpl = [("lit", sa["v"])]
                    else:
                        v = self.ev(a, env, depth)
                        if isinstance(v, (list, tuple)):
                            vals = list(v)
                if tmpl is None:
                    raise Unknown("format template")
                out = []
                for kind, x in tmpl:
                    if kind == "lit":
                        out.append(x)
                    else:
                        if x is None or x >= len(vals):
                            raise Unknown("format argument index")
                        fa = vals[x]
                        fv = fa.value if isinstance(fa, FmtArg) else fa
                        fv = fv.get() if isinstance(fv, Ref) else fv
                        if isinstance(fa, FmtArg) and isinstance(fv, float) and fa.ty in ("f32", "f64"):
                            t_ = rust_float_display(fv, single=(fa.ty == "f32"))
                            if fa.debug and "." not in t_ and t_[-1:].isdigit():
                                t_ += ".0"
                            out.append(t_)
                        elif isinstance(fa, FmtArg) and isinstance(fv, Enum) and self.user_fmt(fv, fa.ty, fa.debug, depth) is not None:
                            out.append(self.user_fmt(fv, fa.ty, fa.debug, depth))
                        elif isinstance(fa, FmtArg) and fa.debug:
                            out.append(debug_value(fv, fa.ty))
                        else:
                            out.append(fmt_value(fv))
                return FmtArgs("".join(out))
            vals = [self.ev(a, env, depth) for a in args]
            if m in ("write_fmt", "write_str", "write_char") and len(vals) == 2:
                tgt = vals[0]
                cur = tgt.get() if isinstance(tgt, Ref) else tgt
                piece = vals[1].text if isinstance(vals[1], FmtArgs) else vals[1]
                if isinstance(cur, str) and isinstance(piece, str):
                    # write!(string, ..): the text is appended to the String itself
                    if isinstance(tgt, Ref):
                        tgt.set(cur + piece)
                    else:
                        self.assign(args[0], cur + piece, env, depth)
                    return Enum("Result", "Ok", {"0": ()})
            for v in vals:
                if isinstance(v, FmtArgs):
                    self.formatted.append(v.text)
                elif isinstance(v, str):
                    self.formatted.append(v)
            if m in ("write_fmt", "write_str", "write_char", "pad"):
                return Enum("Result", "Ok", {"0": ()})
            return Opaque("fmt")
        if gen in ("core::str::<impl str>::split_at", "core::str::<impl str>::find", "core::str::<impl str>::rfind", "core::str::<impl str>::is_char_boundary",
                   "core::str::<impl str>::starts_with", "core::str::<impl str>::ends_with", "core::str::<impl str>::is_empty", "core::str::<impl str>::contains"):
            s = self.ev(args[0], env, depth)
            if not isinstance(s, str):
                raise Unknown("%s on %r" % (short(gen), s))
            b = s.encode("utf-8")
            m = short(gen)
            if m == "is_empty":
                return len(b) == 0
            x = self.ev(args[1], env, depth)
            if m == "split_at":
                if isinstance(x, int) and 0 <= x <= len(b):
                    try:
                        return (b[:x].decode("utf-8"), b[x:].decode("utf-8"))
                    except UnicodeDecodeError:
                        pass
                raise Unknown("core::panicking: split_at(%r) is not on a char boundary of %r" % (x, s))
            if m == "is_char_boundary":
                if not isinstance(x, int):
                    raise Unknown("is_char_boundary(%r)" % (x,))
                return x == len(b) or (0 <= x < len(b) and (b[x] & 0xC0) != 0x80)
            if not isinstance(x, str):
                raise Unknown("%s with pattern %r" % (m, x))
            xb = x.encode("utf-8")
            if m in ("find", "rfind"):
                i = b.find(xb) if m == "find" else b.rfind(xb)
                return Enum("Option", "Some", {"0": i}) if i >= 0 else Enum("Option", "None")
            return {"starts_with": b.startswith(xb), "ends_with": b.endswith(xb), "contains": xb in b}[m]
        if gen in ("alloc::string::String::new", "alloc::string::String::with_capacity"):
            return ""
        if gen == "core::ops::arith::AddAssign::add_assign" and len(args) == 2:
            tgt = self.ev(args[0], env, depth)
            add = self.ev(args[1], env, depth)
            add = add.get() if isinstance(add, Ref) else add
            cur = tgt.get() if isinstance(tgt, Ref) else tgt
            if isinstance(cur, str) and isinstance(add, str):
                if isinstance(tgt, Ref):
                    tgt.set(cur + add)
                else:
                    self.assign(args[0], cur + add, env, depth)
                return ()
            raise Unknown("add_assign on %r" % (cur,))
        if gen in ("core::ptr::eq", "core::ptr::addr_eq"):
            a_ = self.ev(args[0], env, depth)
            b_ = self.ev(args[1], env, depth)
            a_ = a_.get() if isinstance(a_, Ref) else a_
            b_ = b_.get() if isinstance(b_, Ref) else b_
            if isinstance(a_, (Enum, list, HMap, HSet)) and isinstance(b_, (Enum, list, HMap, HSet)):
                return a_ is b_         # modelled aggregates are shared by reference: the same place is the same object
            raise Unknown("ptr::eq on values that are not places")
        if gen in ("core::slice::raw::from_ref", "core::slice::from_ref", "core::array::from_ref"):
            v = self.ev(args[0], env, depth)
            return [v.get() if isinstance(v, Ref) else v]
        if gen in ("core::str::from_utf8", "core::str::converts::from_utf8", "alloc::string::String::from_utf8", "alloc::string::String::from_utf8_lossy"):
            v = self.ev(args[0], env, depth)
            v = v.get() if isinstance(v, Ref) else v
            if isinstance(v, (list, tuple)) and all(isinstance(x, int) and not isinstance(x, bool) and 0 <= x < 256 for x in v):
                try:
                    return Enum("Result", "Ok", {"0": bytes(v).decode("utf-8")}) if not gen.endswith("lossy") else bytes(v).decode("utf-8", "replace")
                except UnicodeDecodeError:
                    return Enum("Result", "Err", {"0": Opaque("Utf8Error")}) if not gen.endswith("lossy") else bytes(v).decode("utf-8", "replace")
            raise Unknown("from_utf8 of %r" % (v,))
        if gen in ("alloc::string::String::is_empty", "alloc::string::String::truncate", "alloc::string::String::clear", "alloc::string::String::pop",
                   "core::str::<impl str>::trim_end_matches", "core::str::<impl str>::trim_start_matches", "core::str::<impl str>::trim_matches"):
            cur = self.ev(args[0], env, depth)
            target = cur if isinstance(cur, Ref) else None
            v = cur.get() if isinstance(cur, Ref) else cur
            if not isinstance(v, str):
                raise Unknown("%s on %r" % (short(gen), v))
            m = short(gen)
            if m == "is_empty":
                return v == ""
            if m in ("truncate", "clear", "pop"):
                if target is None:
                    raise Unknown("String::%s on a value that is not a place" % m)
                if m == "clear":
                    target.set("")
                    return ()
                if m == "pop":
                    target.set(v[:-1])
                    return Enum("Option", "Some", {"0": ord(v[-1])}) if v else Enum("Option", "None")
                n_ = self.ev(args[1], env, depth)
                b_ = v.encode("utf-8")
                if not isinstance(n_, int):
                    raise Unknown("truncate(%r)" % (n_,))
                if n_ <= len(b_):
                    try:
                        target.set(b_[:n_].decode("utf-8"))
                    except UnicodeDecodeError:
                        raise Unknown("core::panicking: truncate(%d) is not on a char boundary" % n_)
                return ()
            pat = self.ev(args[1], env, depth)
            pat = pat.get() if isinstance(pat, Ref) else pat
            if isinstance(pat, int) and not isinstance(pat, bool):
                pat = chr(pat)
            if not isinstance(pat, str) or pat == "":
                raise Unknown("%s with pattern %r" % (m, pat))
            r_ = v
            if m in ("trim_end_matches", "trim_matches"):
                while r_.endswith(pat):
                    r_ = r_[:len(r_) - len(pat)]
            if m in ("trim_start_matches", "trim_matches"):
                while r_.startswith(pat):
                    r_ = r_[len(pat):]
            return r_
        if gen in ("alloc::string::String::insert", "alloc::string::String::insert_str"):
            cur = self.ev(args[0], env, depth)
            target = cur if isinstance(cur, Ref) else None
            cur = cur.get() if isinstance(cur, Ref) else cur
            at_ = self.ev(args[1], env, depth)
            piece = self.ev(args[2], env, depth)
            piece = piece.get() if isinstance(piece, Ref) else piece
            if not isinstance(cur, str) or not isinstance(piece, str) or not isinstance(at_, int):
                raise Unknown("String::insert on %r" % (cur,))
            b_ = cur.encode("utf-8")
            if not (0 <= at_ <= len(b_)) or (at_ < len(b_) and (b_[at_] & 0xC0) == 0x80):
                raise Unknown("core::panicking: String::insert(%d) is not on a char boundary of %r" % (at_, cur))
            new_ = (b_[:at_] + piece.encode("utf-8") + b_[at_:]).decode("utf-8")
            if target is not None:
                target.set(new_)
            else:
                self.assign(args[0], new_, env, depth)
            return ()
        if gen in ("alloc::string::String::push", "alloc::string::String::push_str"):
            cur = self.ev(args[0], env, depth)
            target = cur if isinstance(cur, Ref) else None
            cur = cur.get() if isinstance(cur, Ref) else cur
            piece = self.ev(args[1], env, depth)
            piece = piece.get() if isinstance(piece, Ref) else piece
            if isinstance(piece, int) and not isinstance(piece, bool) and gen.endswith("::push") and 0 <= piece < 0x110000:
                piece = chr(piece)
            if not isinstance(cur, str) or not isinstance(piece, str):
                raise Unknown("String::push on %r" % (cur,))
            if target is not None:
                target.set(cur + piece)
            else:
                self.assign(args[0], cur + piece, env, depth)
            return ()
        if gen in ("core::convert::From::from", "core::char::convert::<impl core::convert::From<u8> for char>::from") and e.get("ty") == "char":
            v = self.ev(args[0], env, depth)
            if isinstance(v, int):
                return chr(v)
        if gen == "core::str::<impl str>::parse":
            v = self.ev(args[0], env, depth)
            v = v.get() if isinstance(v, Ref) else v
            ty = e.get("ty") or ""
            if isinstance(v, str) and "Result<f64" in ty.replace("core::result::", ""):
                # <f64 as FromStr>: the nearest double of a decimal text (correctly rounded, as python's float())
                import re as _re
                if _re.fullmatch(r"[+-]?(\d+\.?\d*|\.\d+)([eE][+-]?\d+)?", v):
                    try:
                        return Enum("Result", "Ok", {"0": float(v)})
                    except OverflowError:
                        return Enum("Result", "Ok", {"0": float("inf")})
                return Enum("Result", "Err", {"0": Opaque("ParseFloatError")})
            for k_ in INT_BITS:
                if isinstance(v, str) and "Result<%s," % k_ in ty.replace("core::result::", ""):
                    import re as _re
                    bits = INT_BITS[k_]
                    lo_, hi_ = (-(1 << (bits - 1)), (1 << (bits - 1)) - 1) if k_.startswith("i") else (0, (1 << bits) - 1)
                    if _re.fullmatch(r"[+-]?\d+" if k_.startswith("i") else r"\+?\d+", v) and lo_ <= int(v) <= hi_:
                        return Enum("Result", "Ok", {"0": int(v)})
                    return Enum("Result", "Err", {"0": Opaque("ParseIntError")})
            raise Unknown("parse of %r as %s" % (v, ty))
        if gen.startswith(("core::f64::<impl f64>::", "core::f32::<impl f32>::", "std::f64::<impl f64>::", "std::f32::<impl f32>::")) and \
                short(gen) in ("fract", "trunc", "floor", "ceil", "round", "abs", "signum", "is_sign_negative", "is_sign_positive", "powi", "sqrt", "min", "max", "mul_add", "recip", "copysign"):
            import math as _m
            m_ = short(gen)
            single_ = "f32" in gen.split("::<impl")[0] or "<impl f32>" in gen
            xs = [self.ev(a, env, depth) for a in args]
            xs = [x.get() if isinstance(x, Ref) else x for x in xs]
            if not all(isinstance(x, (int, float)) and not isinstance(x, bool) for x in xs):
                raise Unknown("%s on %r" % (m_, xs))
            x0 = float(xs[0])
            if m_ in ("is_sign_negative", "is_sign_positive"):
                neg = _m.copysign(1.0, x0) < 0
                return neg if m_ == "is_sign_negative" else not neg
            if x0 != x0 or _m.isinf(x0):
                r_ = {"fract": float("nan"), "abs": abs(x0), "signum": x0 if x0 != x0 else _m.copysign(1.0, x0)}.get(m_, x0)
            else:
                r_ = {"fract": lambda: x0 - _m.trunc(x0), "trunc": lambda: float(_m.trunc(x0)), "floor": lambda: float(_m.floor(x0)), "ceil": lambda: float(_m.ceil(x0)),
                      "round": lambda: float(_m.floor(abs(x0) + 0.5)) * (1.0 if x0 >= 0 else -1.0), "abs": lambda: abs(x0), "signum": lambda: _m.copysign(1.0, x0),
                      "powi": lambda: x0 ** int(xs[1]), "sqrt": lambda: _m.sqrt(x0) if x0 >= 0 else float("nan"), "min": lambda: min(x0, float(xs[1])), "max": lambda: max(x0, float(xs[1])),
                      "mul_add": lambda: x0 * float(xs[1]) + float(xs[2]), "recip": lambda: 1.0 / x0 if x0 != 0 else _m.copysign(float("inf"), x0),
                      "copysign": lambda: _m.copysign(x0, float(xs[1]))}[m_]()
            return F32(r_) if single_ else r_
        if gen in ("core::f64::<impl f64>::is_infinite", "core::f64::<impl f64>::is_nan", "core::f64::<impl f64>::is_finite",
                   "core::f32::<impl f32>::is_infinite", "core::f32::<impl f32>::is_nan", "core::f32::<impl f32>::is_finite"):
            import math as _m
            v = self.ev(args[0], env, depth)
            v = getattr(v, "v", v)
            if isinstance(v, (int, float)):
                return {"is_infinite": _m.isinf(v), "is_nan": _m.isnan(v), "is_finite": _m.isfinite(v)}[short(gen)]
            raise Unknown("float classification of %r" % (v,))
        if gen == "core::slice::<impl [T]>::split_at":
            base = self.ev(args[0], env, depth)
            base = base.get() if isinstance(base, Ref) else base
            i = self.ev(args[1], env, depth)
            if isinstance(base, (list, tuple)) and isinstance(i, int):
                if i > len(base):
                    raise Unknown("core::panicking: split_at(%d) of a slice of %d" % (i, len(base)))
                return (list(base[:i]), list(base[i:]))
            raise Unknown("split_at on %r" % (base,))
        if gen == "core::str::<impl str>::chars":
            v = self.ev(args[0], env, depth)
            if isinstance(v, Ref):
                v = v.get()
            if isinstance(v, Enum) and v.adt == "Located" and isinstance(v.fields.get("node"), str):
                v = v.fields["node"]        # Located<String> derefs to its node
            if isinstance(v, str):
                return list(v)
            raise Unknown("chars of %r" % (v,))
        if gen in ("alloc::string::String::len", "core::str::<impl str>::len"):
            v = self.ev(args[0], env, depth)
            v = v.get() if isinstance(v, Ref) else v
            if isinstance(v, str):
                return len(v.encode("utf-8"))
            raise Unknown("len of %r" % (v,))
        if gen in ("alloc::string::String::as_bytes", "core::str::<impl str>::as_bytes", "core::str::<impl str>::bytes", "alloc::string::String::into_bytes"):
            v = self.ev(args[0], env, depth)
            if isinstance(v, str):
                return list(v.encode("utf-8"))
            raise Unknown("bytes of %r" % (v,))
        if gen in ("alloc::string::String::as_str", "alloc::string::ToString::to_string", "alloc::borrow::ToOwned::to_owned", "core::str::<impl str>::to_string"):
            v_ = self.ev(args[0], env, depth)
            v1_ = v_.get() if isinstance(v_, Ref) else v_
            if gen == "alloc::string::ToString::to_string" and isinstance(v1_, int) and not isinstance(v1_, bool):
                return str(v1_)
            return v_
        if gen in ("core::slice::<impl [T]>::len", "alloc::vec::Vec::<T, A>::len"):
            v = self.ev(args[0], env, depth)
            if isinstance(v, (list, tuple)):
                return len(v)
            raise Unknown("len of %r" % (v,))
        if gen == "core::ops::index::IndexMut::index_mut":
            base = self.ev(args[0], env, depth)
            if isinstance(base, Ref):
                base = base.get()
            i = self.ev(args[1], env, depth)
            if isinstance(base, list) and isinstance(i, int) and 0 <= i < len(base):
                return base[i] if isinstance(base[i], (Enum, list, HSet, HMap)) else Ref(base, i)
            raise Unknown("core::panicking: index_mut out of range" if isinstance(base, list) and isinstance(i, int) else "index_mut %r[%r]" % (base, i))
        if gen == "core::ops::index::Index::index":
            base = self.ev(args[0], env, depth)
            i = self.ev(args[1], env, depth)
            base = base.get() if isinstance(base, Ref) else base
            if isinstance(base, (list, tuple)) and isinstance(i, int) and 0 <= i < len(base):
                return base[i]
            if isinstance(base, HMap):
                k_ = i.get() if isinstance(i, Ref) else i
                if base.has(k_):
                    return base.get(k_)
                raise Unknown("core::panicking: HashMap index with a key that is not present")
            if isinstance(base, str) and isinstance(i, Enum) and i.adt in ("Range", "RangeFrom", "RangeTo", "RangeInclusive", "RangeToInclusive", "RangeFull"):
                bb = base.encode("utf-8")
                lo = i.fields.get("start", 0)
                hi = i.fields.get("end", len(bb))
                if i.adt in ("RangeInclusive", "RangeToInclusive") and isinstance(hi, int):
                    hi += 1
                if isinstance(lo, int) and isinstance(hi, int) and 0 <= lo <= hi <= len(bb):
                    try:
                        return bb[lo:hi].decode("utf-8")
                    except UnicodeDecodeError:
                        pass
                raise Unknown("core::panicking: str slice [%r..%r] of a %d-byte string is out of range or not on a char boundary" % (lo, hi, len(bb)))
            if isinstance(base, (list, tuple)) and isinstance(i, Enum) and i.adt in ("Range", "RangeFrom", "RangeTo", "RangeInclusive", "RangeToInclusive", "RangeFull"):
                lo = i.fields.get("start", 0)
                hi = i.fields.get("end", len(base))
                if i.adt in ("RangeInclusive", "RangeToInclusive") and isinstance(hi, int):
                    hi += 1
                if isinstance(lo, int) and isinstance(hi, int) and 0 <= lo <= hi <= len(base):
                    return list(base[lo:hi])
                raise Unknown("core::panicking: slice index [%r..%r] out of range for a length of %d" % (lo, hi, len(base)))
            if isinstance(base, (list, tuple)) and isinstance(i, int) and not isinstance(i, bool):
                raise Unknown("core::panicking: index out of bounds: the len is %d but the index is %d" % (len(base), i))
            raise Unknown("index")
        if gen == "alloc::vec::Vec::<T, A>::splice":
            base = self.ev(args[0], env, depth)
            base = base.get() if isinstance(base, Ref) else base
            rng = self.ev(args[1], env, depth)
            repl = self.ev(args[2], env, depth)
            repl = repl.get() if isinstance(repl, Ref) else repl
            if isinstance(base, list) and isinstance(rng, Enum) and rng.adt.startswith("Range") and isinstance(repl, (list, tuple)):
                lo = rng.fields.get("start", 0)
                hi = rng.fields.get("end", len(base))
                if rng.adt in ("RangeInclusive", "RangeToInclusive") and isinstance(hi, int):
                    hi += 1
                if not (isinstance(lo, int) and isinstance(hi, int)):
                    raise Unknown("splice range")
                if not 0 <= lo <= hi <= len(base):
                    raise Unknown("core::panicking: splice range %d..%d out of bounds of %d" % (lo, hi, len(base)))
                removed = base[lo:hi]
                base[lo:hi] = list(repl)
                return removed
            raise Unknown("splice on %r" % (base,))
        if gen in ("alloc::vec::Vec::<T, A>::dedup", "alloc::vec::Vec::<T, A>::clear", "alloc::vec::Vec::<T, A>::truncate", "alloc::vec::Vec::<T, A>::reverse",
                   "core::slice::<impl [T]>::reverse", "alloc::vec::Vec::<T, A>::insert", "alloc::vec::Vec::<T, A>::remove", "alloc::vec::Vec::<T, A>::append"):
            base = self.ev(args[0], env, depth)
            base = base.get() if isinstance(base, Ref) else base
            if not isinstance(base, list):
                raise Unknown("%s on %r" % (short(gen), base))
            m_ = short(gen)
            rest_ = [self.ev(a, env, depth) for a in args[1:]]
            rest_ = [x.get() if isinstance(x, Ref) else x for x in rest_]
            if m_ == "dedup":
                out_ = []
                for x in base:
                    if not out_ or not (out_[-1] == x):
                        out_.append(x)
                base[:] = out_
                return ()
            if m_ == "clear":
                del base[:]
                return ()
            if m_ == "truncate" and isinstance(rest_[0], int):
                del base[rest_[0]:]
                return ()
            if m_ == "reverse":
                base.reverse()
                return ()
            if m_ == "insert" and isinstance(rest_[0], int):
                if rest_[0] > len(base):
                    raise Unknown("core::panicking: insert index out of bounds")
                base.insert(rest_[0], rest_[1])
                return ()
            if m_ == "remove" and isinstance(rest_[0], int):
                if rest_[0] >= len(base):
                    raise Unknown("core::panicking: remove index out of bounds")
                return base.pop(rest_[0])
            if m_ == "append" and isinstance(rest_[0], list):
                base.extend(rest_[0])
                del rest_[0][:]
                return ()
            raise Unknown("%s arguments" % m_)
        if gen == "core::default::Default::default" and self.facts.bodies.get(cal) is None:
            return self.default_of(e.get("ty") or "", depth)
        if gen in ("core::ops::bit::Not::not", "core::ops::arith::Neg::neg") and len(args) == 1 and self.facts.bodies.get(cal) is None:
            v = self.ev(args[0], env, depth)
            v = v.get() if isinstance(v, Ref) else v
            if gen.endswith("Not::not") and isinstance(v, bool):
                return not v
            if gen.endswith("Neg::neg") and isinstance(v, (int, float)) and not isinstance(v, bool):
                return -v
            raise Unknown("%s on %r" % (short(gen), v))
        if gen == "alloc::vec::Vec::<T, A>::resize":
            base = self.ev(args[0], env, depth)
            base = base.get() if isinstance(base, Ref) else base
            n_ = self.ev(args[1], env, depth)
            fill = self.ev(args[2], env, depth)
            if isinstance(base, list) and isinstance(n_, int) and 0 <= n_ <= 4096:
                import copy as _c
                if n_ < len(base):
                    del base[n_:]
                while len(base) < n_:
                    base.append(fill if isinstance(fill, (bool, int, float, str)) else _c.deepcopy(fill))
                return ()
            raise Unknown("resize of %r to %r" % (base, n_))
        if gen == "alloc::vec::Vec::<T, A>::resize_with":
            base = self.ev(args[0], env, depth)
            base = base.get() if isinstance(base, Ref) else base
            n_ = self.ev(args[1], env, depth)
            mk = self.ev(args[2], env, depth)
            if isinstance(base, list) and isinstance(n_, int) and 0 <= n_ <= 4096:
                if n_ < len(base):
                    del base[n_:]
                while len(base) < n_:
                    if isinstance(mk, PyFn) and mk.path.endswith("Default::default") and self.facts.bodies.get(mk.path) is None:
                        base.append(self.default_of((e.get("targs") or [""])[0], depth))
                    else:
                        base.append(self.call_callable(mk, [], depth))
                return ()
            raise Unknown("resize_with of %r to %r" % (base, n_))
        OPS = {"core::ops::arith::Add::add": "Add", "core::ops::arith::Sub::sub": "Sub", "core::ops::arith::Mul::mul": "Mul", "core::ops::arith::Div::div": "Div",
               "core::ops::arith::Rem::rem": "Rem", "core::ops::bit::Shl::shl": "Shl", "core::ops::bit::Shr::shr": "Shr"}
        if gen in OPS and len(args) == 2 and self.facts.bodies.get(cal) is None:
            a0, b0 = self.ev(args[0], env, depth), self.ev(args[1], env, depth)
            a0 = a0.get() if isinstance(a0, Ref) else a0
            b0 = b0.get() if isinstance(b0, Ref) else b0
            if isinstance(a0, str) and isinstance(b0, str) and gen.endswith("add"):
                return a0 + b0                  # String + &str
            ty_ = (e.get("ty") or "")
            if isinstance(a0, (int, float)) and isinstance(b0, (int, float)) and not isinstance(a0, bool) and not isinstance(b0, bool):
                if gen.endswith(("div", "rem")) and b0 == 0 and isinstance(a0, int) and isinstance(b0, int):
                    raise Unknown("core::panicking: attempt to divide by zero")
                r_ = self.binop(OPS[gen], a0, b0)
                if ty_ in INT_BITS and isinstance(r_, int):
                    bits = INT_BITS[ty_]
                    lo_, hi_ = (-(1 << (bits - 1)), (1 << (bits - 1)) - 1) if ty_.startswith("i") else (0, (1 << bits) - 1)
                    if not lo_ <= r_ <= hi_ and OPS[gen] in ("Add", "Sub", "Mul"):
                        raise Unknown("core::panicking: attempt to %s with overflow" % OPS[gen].lower())
                return F32(r_) if ty_ == "f32" and isinstance(r_, float) else r_
            raise Unknown("%s on %r, %r" % (short(gen), a0, b0))
        if gen in ("core::slice::<impl [T]>::swap",):
            base = self.ev(args[0], env, depth)
            base = base.get() if isinstance(base, Ref) else base
            i_, j_ = self.ev(args[1], env, depth), self.ev(args[2], env, depth)
            if isinstance(base, list) and isinstance(i_, int) and isinstance(j_, int):
                if not (0 <= i_ < len(base) and 0 <= j_ < len(base)):
                    raise Unknown("core::panicking: index out of bounds in swap")
                base[i_], base[j_] = base[j_], base[i_]
                return ()
            raise Unknown("swap")
        if gen in ("core::cmp::Ordering::then_with", "core::cmp::Ordering::then", "core::cmp::Ordering::reverse", "core::cmp::Ordering::is_lt", "core::cmp::Ordering::is_le",
                   "core::cmp::Ordering::is_gt", "core::cmp::Ordering::is_ge", "core::cmp::Ordering::is_eq", "core::cmp::Ordering::is_ne"):
            o_ = self.ev(args[0], env, depth)
            o_ = o_.get() if isinstance(o_, Ref) else o_
            if not (isinstance(o_, Enum) and o_.variant in ("Less", "Equal", "Greater")):
                raise Unknown("%s on %r" % (short(gen), o_))
            m_ = short(gen)
            if m_ in ("then_with", "then"):
                if o_.variant != "Equal":
                    return o_
                n_ = self.ev(args[1], env, depth)
                return self.call_callable(n_, [], depth) if m_ == "then_with" else n_
            if m_ == "reverse":
                return Enum("Ordering", {"Less": "Greater", "Greater": "Less", "Equal": "Equal"}[o_.variant])
            return {"is_lt": o_.variant == "Less", "is_le": o_.variant != "Greater", "is_gt": o_.variant == "Greater", "is_ge": o_.variant != "Less",
                    "is_eq": o_.variant == "Equal", "is_ne": o_.variant != "Equal"}[m_]
        if gen in ("core::char::methods::<impl char>::to_digit", "core::char::methods::<impl char>::to_ascii_uppercase", "core::char::methods::<impl char>::to_ascii_lowercase",
                   "core::num::<impl u8>::to_ascii_uppercase", "core::num::<impl u8>::to_ascii_lowercase", "core::char::methods::<impl char>::len_utf8"):
            c_ = self.ev(args[0], env, depth)
            c_ = c_.get() if isinstance(c_, Ref) else c_
            m_ = short(gen)
            if isinstance(c_, int) and "u8" in gen:
                ch = chr(c_)
                return ord(ch.upper() if m_.endswith("uppercase") else ch.lower()) if c_ < 128 else c_
            if isinstance(c_, str) and len(c_) == 1:
                if m_ == "to_digit":
                    radix = self.ev(args[1], env, depth)
                    d_ = "0123456789abcdefghijklmnopqrstuvwxyz".find(c_.lower())
                    return Enum("Option", "Some", {"0": d_}) if isinstance(radix, int) and 0 <= d_ < radix else Enum("Option", "None")
                if m_ == "len_utf8":
                    return len(c_.encode("utf-8"))
                return (c_.upper() if m_.endswith("uppercase") else c_.lower()) if ord(c_) < 128 else c_
            raise Unknown("%s of %r" % (m_, c_))
        if gen == "core::cmp::Ord::clamp" and len(args) == 3:
            v0, lo_, hi_ = [self.ev(a, env, depth) for a in args]
            if all(isinstance(x, (int, float)) and not isinstance(x, bool) for x in (v0, lo_, hi_)):
                if lo_ > hi_:
                    raise Unknown("core::panicking: clamp with min > max")
                return max(lo_, min(hi_, v0))
            raise Unknown("clamp")
        if gen in ("core::ops::range::RangeInclusive::<Idx>::new",):
            return Enum("RangeInclusive", None, {"start": self.ev(args[0], env, depth), "end": self.ev(args[1], env, depth)})
        if gen in ("core::mem::take", "core::mem::replace", "core::mem::swap"):
            tgt = self.ev(args[0], env, depth)
            if gen.endswith("swap"):
                o_ = self.ev(args[1], env, depth)
                a_ = tgt.get() if isinstance(tgt, Ref) else tgt
                b_ = o_.get() if isinstance(o_, Ref) else o_
                (tgt.set(b_) if isinstance(tgt, Ref) else self.assign(args[0], b_, env, depth))
                (o_.set(a_) if isinstance(o_, Ref) else self.assign(args[1], a_, env, depth))
                return ()
            old = tgt.get() if isinstance(tgt, Ref) else tgt
            new_ = self.ev(args[1], env, depth) if gen.endswith("replace") else self.default_of((e.get("ty") or ""), depth)
            import copy as _c
            keep = _c.copy(old) if isinstance(old, list) else old
            if isinstance(old, HMap) and not isinstance(tgt, Ref) and isinstance(new_, HMap):
                keep = HMap()               # a map behind `&mut`: hand out the contents, leave the caller's map with the new ones
                keep.keys, keep.vals = list(old.keys), dict(old.vals)
                old.keys[:] = list(new_.keys)
                old.vals.clear()
                old.vals.update(new_.vals)
                return keep
            if isinstance(tgt, Ref):
                tgt.set(new_)
            elif isinstance(old, list) and isinstance(new_, list):
                old[:] = new_               # a Vec behind `&mut`: the caller sees the new contents
            else:
                self.assign(args[0], new_, env, depth)
            return keep
        if gen in ("core::slice::<impl [T]>::binary_search",):
            base = self.ev(args[0], env, depth)
            x = self.ev(args[1], env, depth)
            base = base.get() if isinstance(base, Ref) else base
            x = x.get() if isinstance(x, Ref) else x
            if isinstance(base, (list, tuple)) and all(isinstance(y, (int, str)) for y in base):
                # std's algorithm (also on unsorted input, where it can miss an element that is present)
                size, lo_ = len(base), 0
                if size == 0:
                    return Enum("Result", "Err", {"0": 0})
                while size > 1:
                    half = size // 2
                    mid = lo_ + half
                    lo_ = lo_ if base[mid] > x else mid
                    size -= half
                if base[lo_] == x:
                    return Enum("Result", "Ok", {"0": lo_})
                return Enum("Result", "Err", {"0": lo_ + (1 if base[lo_] < x else 0)})
            raise Unknown("binary_search on %r" % (base,))
        if gen in ("core::slice::<impl [T]>::binary_search_by", "core::slice::<impl [T]>::binary_search_by_key"):
            base = self.ev(args[0], env, depth)
            base = base.get() if isinstance(base, Ref) else base
            if not isinstance(base, (list, tuple)):
                raise Unknown("binary_search_by on %r" % (base,))
            if gen.endswith("_by_key"):
                key_ = self.ev(args[1], env, depth)
                key_ = key_.get() if isinstance(key_, Ref) else key_
                kf = self.ev(args[2], env, depth)

                def order(y):
                    ky = self.call_callable(kf, [y], depth)
                    if isinstance(ky, (int, str)) and isinstance(key_, type(ky)):
                        return "Less" if ky < key_ else ("Greater" if ky > key_ else "Equal")
                    raise Unknown("binary_search_by_key key %r" % (ky,))
            else:
                cf = self.ev(args[1], env, depth)

                def order(y):
                    o_ = self.call_callable(cf, [y], depth)
                    if isinstance(o_, Enum) and o_.variant in ("Less", "Equal", "Greater"):
                        return o_.variant
                    raise Unknown("binary_search_by comparator result %r" % (o_,))
            size, lo_ = len(base), 0
            if size == 0:
                return Enum("Result", "Err", {"0": 0})
            while size > 1:         # std's algorithm
                half = size // 2
                mid = lo_ + half
                lo_ = lo_ if order(base[mid]) == "Greater" else mid
                size -= half
            c_ = order(base[lo_])
            if c_ == "Equal":
                return Enum("Result", "Ok", {"0": lo_})
            return Enum("Result", "Err", {"0": lo_ + (1 if c_ == "Less" else 0)})
        if gen in ("core::slice::<impl [T]>::windows", "core::slice::<impl [T]>::chunks", "core::slice::<impl [T]>::concat", "core::slice::<impl [T]>::split_last",
                   "alloc::slice::<impl [T]>::concat"):
            base = self.ev(args[0], env, depth)
            base = base.get() if isinstance(base, Ref) else base
            if not isinstance(base, (list, tuple)):
                raise Unknown("%s on %r" % (short(gen), base))
            m_ = short(gen)
            if m_ == "concat":
                return [y for x_ in base for y in x_]
            if m_ == "split_last":
                return Enum("Option", "Some", {"0": (base[-1], list(base[:-1]))}) if base else Enum("Option", "None")
            k_ = self.ev(args[1], env, depth)
            if not isinstance(k_, int) or k_ <= 0:
                raise Unknown("core::panicking: window / chunk size must be non-zero")
            if m_ == "windows":
                return [list(base[i:i + k_]) for i in range(0, len(base) - k_ + 1)]
            return [list(base[i:i + k_]) for i in range(0, len(base), k_)]
        if gen.startswith(("core::str::<impl str>::", "alloc::str::<impl str>::")) and short(gen) in ("split", "trim", "trim_start", "trim_end", "replace", "lines", "to_uppercase",
                                                                                                       "to_lowercase", "split_whitespace", "char_indices", "to_ascii_uppercase", "to_ascii_lowercase",
                                                                                                       "eq_ignore_ascii_case", "repeat", "splitn", "matches"):
            m_ = short(gen)
            v0 = self.ev(args[0], env, depth)
            v0 = v0.get() if isinstance(v0, Ref) else v0
            rest_ = [self.ev(a, env, depth) for a in args[1:]]
            rest_ = [x.get() if isinstance(x, Ref) else x for x in rest_]
            if not isinstance(v0, str):
                raise Unknown("%s on %r" % (m_, v0))
            if m_ == "split" and isinstance(rest_[0], str) and rest_[0] != "":
                return v0.split(rest_[0])
            if m_ in ("trim", "trim_start", "trim_end"):
                return {"trim": v0.strip(), "trim_start": v0.lstrip(), "trim_end": v0.rstrip()}[m_]
            if m_ == "replace" and all(isinstance(x, str) for x in rest_[:2]) and rest_[0] != "":
                return v0.replace(rest_[0], rest_[1])
            if m_ == "lines":
                return [l_[:-1] if l_.endswith("\r") else l_ for l_ in (v0[:-1] if v0.endswith("\n") else v0).split("\n")] if v0 else []
            if m_ in ("to_uppercase", "to_ascii_uppercase", "to_lowercase", "to_ascii_lowercase") and v0.isascii():
                return v0.upper() if "upper" in m_ else v0.lower()
            if m_ == "split_whitespace":
                return v0.split()
            if m_ == "char_indices":
                out_, off = [], 0
                for ch in v0:
                    out_.append((off, ch))
                    off += len(ch.encode("utf-8"))
                return out_
            if m_ == "eq_ignore_ascii_case" and isinstance(rest_[0], str):
                return v0.lower() == rest_[0].lower() if v0.isascii() and rest_[0].isascii() else v0 == rest_[0]
            if m_ == "repeat" and isinstance(rest_[0], int):
                return v0 * rest_[0]
            if m_ == "matches" and isinstance(rest_[0], str) and rest_[0] != "":
                return [rest_[0]] * v0.count(rest_[0])
            raise Unknown("%s arguments" % m_)
        if gen.startswith("core::num::<impl ") and short(gen) in ("count_ones", "count_zeros", "leading_zeros", "trailing_zeros", "is_power_of_two", "saturating_add", "saturating_sub",
                                                                  "saturating_mul", "rem_euclid", "div_euclid", "abs_diff", "signum", "is_negative", "is_positive", "swap_bytes",
                                                                  "overflowing_add", "overflowing_sub", "overflowing_mul", "div_ceil", "ilog2", "ilog10", "isqrt"):
            m_ = short(gen)
            ty_ = gen[len("core::num::<impl "):].split(">")[0]
            bits = INT_BITS.get(ty_, 64)
            signed = ty_.startswith("i")
            lo_, hi_ = (-(1 << (bits - 1)), (1 << (bits - 1)) - 1) if signed else (0, (1 << bits) - 1)
            xs = [self.ev(a, env, depth) for a in args]
            xs = [x.get() if isinstance(x, Ref) else x for x in xs]
            if not all(isinstance(x, int) and not isinstance(x, bool) for x in xs):
                raise Unknown("%s on %r" % (m_, xs))
            a0 = xs[0]
            u0 = a0 & ((1 << bits) - 1)
            wrap_ = lambda v: ((v & ((1 << bits) - 1)) - (1 << bits)) if signed and (v & ((1 << bits) - 1)) > hi_ else (v & ((1 << bits) - 1))
            if m_ == "count_ones":
                return bin(u0).count("1")
            if m_ == "count_zeros":
                return bits - bin(u0).count("1")
            if m_ == "leading_zeros":
                return bits - u0.bit_length()
            if m_ == "trailing_zeros":
                return bits if u0 == 0 else (u0 & -u0).bit_length() - 1
            if m_ == "is_power_of_two":
                return a0 > 0 and (a0 & (a0 - 1)) == 0
            if m_.startswith("saturating_"):
                r_ = {"add": a0 + xs[1], "sub": a0 - xs[1], "mul": a0 * xs[1]}[m_[11:]]
                return max(lo_, min(hi_, r_))
            if m_.startswith("overflowing_"):
                r_ = {"add": a0 + xs[1], "sub": a0 - xs[1], "mul": a0 * xs[1]}[m_[12:]]
                return (wrap_(r_), not lo_ <= r_ <= hi_)
            if m_ in ("rem_euclid", "div_euclid", "div_ceil"):
                if xs[1] == 0:
                    raise Unknown("core::panicking: attempt to divide by zero")
                if m_ == "rem_euclid":
                    return a0 % abs(xs[1])
                if m_ == "div_euclid":
                    q_ = (a0 - a0 % abs(xs[1])) // abs(xs[1])
                    return q_ if xs[1] > 0 else -q_
                return -((-a0) // xs[1])
            if m_ == "abs_diff":
                return abs(a0 - xs[1])
            if m_ == "signum":
                return (a0 > 0) - (a0 < 0)
            if m_ in ("is_negative", "is_positive"):
                return a0 < 0 if m_ == "is_negative" else a0 > 0
            if m_ in ("ilog2", "ilog10", "isqrt"):
                if a0 <= 0 and m_ != "isqrt":
                    raise Unknown("core::panicking: argument of integer logarithm must be positive")
                import math as _m
                return a0.bit_length() - 1 if m_ == "ilog2" else (len(str(a0)) - 1 if m_ == "ilog10" else _m.isqrt(a0))
            raise Unknown(m_)
        if gen in ("core::iter::sources::once::once", "core::iter::sources::empty::empty", "core::iter::sources::repeat_n::repeat_n"):
            if gen.endswith("empty"):
                return []
            v0 = self.ev(args[0], env, depth)
            if gen.endswith("once"):
                return [v0]
            n_ = self.ev(args[1], env, depth)
            if isinstance(n_, int) and 0 <= n_ <= 4096:
                return [v0] * n_
            raise Unknown("repeat_n count")
        if gen.startswith(("core::num::<impl u8>::is_ascii_", "core::char::methods::<impl char>::is_ascii_", "core::char::methods::<impl char>::is_")) and len(args) == 1:
            v0 = self.ev(args[0], env, depth)
            v0 = v0.get() if isinstance(v0, Ref) else v0
            c_ = chr(v0) if isinstance(v0, int) and 0 <= v0 < 0x110000 else v0
            if isinstance(c_, str) and len(c_) == 1:
                asc = ord(c_) < 128
                t_ = {"is_ascii_digit": asc and c_.isdigit(), "is_ascii_alphabetic": asc and c_.isalpha(), "is_ascii_alphanumeric": asc and c_.isalnum(),
                      "is_ascii_hexdigit": c_ in "0123456789abcdefABCDEF", "is_ascii_whitespace": c_ in " \t\n\x0c\r", "is_ascii_uppercase": asc and c_.isupper(),
                      "is_ascii_lowercase": asc and c_.islower(), "is_ascii_punctuation": asc and (33 <= ord(c_) <= 126) and not c_.isalnum(), "is_ascii": asc,
                      "is_alphabetic": c_.isalpha(), "is_numeric": c_.isnumeric(), "is_alphanumeric": c_.isalnum(), "is_whitespace": c_.isspace(),
                      "is_uppercase": c_.isupper(), "is_lowercase": c_.islower(), "is_digit": None}
                r_ = t_.get(short(gen))
                if r_ is not None:
                    return bool(r_)
            raise Unknown("%s of %r" % (short(gen), v0))
        if gen in ("core::slice::<impl [T]>::strip_prefix", "core::slice::<impl [T]>::strip_suffix", "core::str::<impl str>::strip_prefix", "core::str::<impl str>::strip_suffix"):
            base = self.ev(args[0], env, depth)
            x = self.ev(args[1], env, depth)
            base = base.get() if isinstance(base, Ref) else base
            x = x.get() if isinstance(x, Ref) else x
            if isinstance(base, (list, tuple)) and isinstance(x, (list, tuple)):
                base, x = list(base), list(x)
            elif not (isinstance(base, str) and isinstance(x, str)):
                raise Unknown("strip_prefix on %r" % (base,))
            n_ = len(x)
            if gen.endswith("strip_prefix"):
                return Enum("Option", "Some", {"0": base[n_:]}) if base[:n_] == x else Enum("Option", "None")
            return Enum("Option", "Some", {"0": base[:len(base) - n_]}) if (n_ == 0 or base[-n_:] == x) else Enum("Option", "None")
        if gen in ("core::slice::<impl [T]>::starts_with", "core::slice::<impl [T]>::ends_with"):
            base = self.ev(args[0], env, depth)
            x = self.ev(args[1], env, depth)
            base = base.get() if isinstance(base, Ref) else base
            x = x.get() if isinstance(x, Ref) else x
            if isinstance(base, (list, tuple)) and isinstance(x, (list, tuple)):
                n = len(x)
                return (list(base[:n]) == list(x)) if gen.endswith("starts_with") else (n == 0 or list(base[-n:]) == list(x))
            raise Unknown("starts_with on %r" % (base,))
        if gen in ("core::ops::range::Range::<Idx>::contains", "core::ops::range::RangeInclusive::<Idx>::contains", "core::ops::range::RangeFrom::<Idx>::contains",
                   "core::ops::range::RangeTo::<Idx>::contains", "core::ops::range::RangeToInclusive::<Idx>::contains"):
            r = self.ev(args[0], env, depth)
            x = self.ev(args[1], env, depth)
            r = r.get() if isinstance(r, Ref) else r
            x = x.get() if isinstance(x, Ref) else x

            def num(v):
                if isinstance(v, Enum) and len(v.fields) == 1 and isinstance(list(v.fields.values())[0], int):
                    return list(v.fields.values())[0]         # a newtype over an integer with a derived ordering
                return v
            if isinstance(r, Enum) and r.adt.startswith("Range"):
                lo, hi, xv = num(r.fields.get("start")), num(r.fields.get("end")), num(x)
                if isinstance(xv, (int, float)) and all(v is None or isinstance(v, (int, float)) for v in (lo, hi)):
                    ok = (lo is None or lo <= xv)
                    if hi is not None:
                        ok = ok and (xv <= hi if r.adt in ("RangeInclusive", "RangeToInclusive") else xv < hi)
                    return ok
            raise Unknown("Range::contains on %r" % (r,))
        if gen == "core::slice::<impl [T]>::contains":
            base = self.ev(args[0], env, depth)
            x = self.ev(args[1], env, depth)
            if isinstance(base, (list, tuple)) and not isinstance(x, Opaque):
                return any(x == y for y in base)
            raise Unknown("contains")
        if gen in ("core::cmp::Ord::cmp", "core::cmp::PartialOrd::partial_cmp"):
            a, b = self.ev(args[0], env, depth), self.ev(args[1], env, depth)
            if (isinstance(a, int) and isinstance(b, int)) or (isinstance(a, str) and isinstance(b, str)):
                return Enum("Ordering", ORD[(a > b) - (a < b)])
            raise Unknown("cmp on non-int")
        if gen in ("core::cmp::PartialEq::eq", "core::cmp::PartialEq::ne"):
            a, b = self.ev(args[0], env, depth), self.ev(args[1], env, depth)
            if isinstance(a, Opaque) or isinstance(b, Opaque):
                raise Unknown("eq on opaque")
            return (a == b) if gen.endswith("eq") else (a != b)
        if gen in ("core::cmp::PartialOrd::lt", "core::cmp::PartialOrd::le",
                   "core::cmp::PartialOrd::gt", "core::cmp::PartialOrd::ge"):
            a, b = self.ev(args[0], env, depth), self.ev(args[1], env, depth)
            if isinstance(a, Ref):
                a = a.get()
            if isinstance(b, Ref):
                b = b.get()
            if isinstance(a, (int, float)) and isinstance(b, (int, float)):
                return {"lt": a < b, "le": a <= b, "gt": a > b, "ge": a >= b}[gen[-2:]]
            if isinstance(a, (list, tuple)) and isinstance(b, (list, tuple)) and all(isinstance(x, int) for x in list(a) + list(b)):
                a, b = list(a), list(b)           # Vec<integer> compares lexicographically
                return {"lt": a < b, "le": a <= b, "gt": a > b, "ge": a >= b}[gen[-2:]]
            if isinstance(a, str) and isinstance(b, str):
                return {"lt": a < b, "le": a <= b, "gt": a > b, "ge": a >= b}[gen[-2:]]
            if isinstance(a, Enum) and isinstance(b, Enum) and a.adt == b.adt and a.variant == b.variant and list(a.fields) == ["0"] == list(b.fields) \
                    and all(isinstance(v.fields["0"], int) and not isinstance(v.fields["0"], bool) for v in (a, b)):
                x, y = a.fields["0"], b.fields["0"]       # a newtype over an integer: the derived ordering is the integer's
                return {"lt": x < y, "le": x <= y, "gt": x > y, "ge": x >= y}[gen[-2:]]
            if isinstance(a, Enum) and isinstance(b, Enum) and a.adt == b.adt and a.variant == b.variant and all(isinstance(v, (int, Enum)) and not isinstance(v, bool) for v in a.fields.values()):
                try:
                    if a == b:      # a derived ordering is irreflexive on equal values
                        return {"lt": False, "le": True, "gt": False, "ge": True}[gen[-2:]]
                except Unknown:
                    pass
            raise Unknown("ordering on non-numbers (derived PartialOrd is resolved by rules)")
        if gen == "core::clone::Clone::clone":
            v0 = self.ev(args[0], env, depth)
            if isinstance(v0, Ref):
                v0 = v0.get()
            if isinstance(v0, HSet):
                return HSet(v0.items)
            if isinstance(v0, HMap):
                c_ = HMap()
                for k_, x_ in v0.items():
                    c_.put(k_, x_)
                return c_
            if isinstance(v0, list):
                return list(v0)
            if self.facts.bodies.get(cal) is None:
                return v0
        if gen in ("core::convert::From::from", "core::convert::Into::into", "core::clone::Clone::clone",
                   "alloc::boxed::Box::<T>::new"):
            v = self.ev(args[0], env, depth)
            if isinstance(v, bool) and e.get("ty") in INT_BITS:
                return int(v)
            callee = self.facts.bodies.get(cal)
            if callee is None and gen == "core::convert::Into::into" and len(e.get("targs") or []) == 2:
                # the blanket impl: T::into() is <U as From<T>>::from
                src, dst = e["targs"]
                imp = self.facts.bodies.get("<%s as core::convert::From<%s>>::from" % (dst, src))
                if imp is not None and depth < self.max_depth:
                    return self.apply(imp, [v], depth + 1)
                if src != dst and src.startswith("rssl") and dst.startswith("rssl"):
                    raise Unknown("conversion %s -> %s" % (src, dst))
            if callee is None:
                return v
        callee = self.facts.bodies.get(cal)
        if callee is None and e.get("trait") and args and depth < self.max_depth:
            # a call through `dyn Trait` (or an unresolved generic): dispatch on the value the receiver has
            recv = self.ev(args[0], env, depth)
            recv = recv.get() if isinstance(recv, Ref) else recv
            if isinstance(recv, Enum) and recv.adt:
                m_ = short(cal)
                cands = [b_ for p_, b_ in self.facts.bodies.items() if p_.startswith("<") and p_.endswith("::" + m_) and (" as %s>" % e["trait"]) in p_
                         and short(p_[1:].split(" as ")[0]) == recv.adt]
                if len(cands) == 1:
                    return self.apply(cands[0], [recv] + [self.ev(a, env, depth) for a in args[1:]], depth + 1)
                dflt = self.facts.bodies.get("%s::%s" % (e["trait"], m_))
                if not cands and dflt is not None:
                    return self.apply(dflt, [recv] + [self.ev(a, env, depth) for a in args[1:]], depth + 1)
        if callee is not None and depth >= self.max_depth:
            raise DepthExceeded("call to " + cal)
        if callee is None:
            raise Unknown("call to " + cal)
        vals = [self.ev(a, env, depth) for a in args]
        return self.apply(callee, vals, depth + 1)

    def default_of(self, ty, depth):
        """Default::default() of a type without a body in the workspace (std types, arrays)"""
        import re as _re
        ty = ty.strip()
        if ty == "bool":
            return False
        if ty in INT_BITS:
            return 0
        if ty in ("f32", "f64"):
            return 0.0
        if ty in ("alloc::string::String", "&str"):
            return ""
        if ty.startswith("alloc::vec::Vec<"):
            return []
        if ty.startswith("core::option::Option<"):
            return Enum("Option", "None")
        if ty.startswith("std::collections::hash::set::HashSet"):
            return HSet()
        if ty.startswith("std::collections::hash::map::HashMap"):
            return HMap()
        m = _re.fullmatch(r"\[(.+); (\d+)\]", ty)
        if m and int(m.group(2)) <= 4096:
            return [self.default_of(m.group(1), depth) for _ in range(int(m.group(2)))]
        body = self.facts.bodies.get("<%s as core::default::Default>::default" % ty)
        if body is not None and depth < self.max_depth:
            return self.apply(body, [], depth + 1)
        raise Unknown("default of " + ty)

    def call_callable(self, c, vals, depth):
        if isinstance(c, Ref):
            c = c.get()
        if callable(c) and not isinstance(c, (PyClosure, PyFn)):
            return c(vals)              # a scripted stand-in supplied by a rule (e.g. an element parser)
        if isinstance(c, PyClosure):
            return self.call_closure(c, vals, depth)
        if isinstance(c, PyFn):
            for suf, fn_ in self.extern.items():      # a stand-in also answers when the function is passed as a value
                if c.path.endswith(suf):
                    return fn_(vals)
            body = self.facts.bodies.get(c.path)
            if body is not None and depth < self.max_depth:
                return self.apply(body, vals, depth + 1)
            nm = short(c.path)
            if nm in ("Some", "Ok", "Err") and len(vals) == 1:
                return Enum("Option" if nm == "Some" else "Result", nm, {"0": vals[0]})
            if c.path in ("core::convert::From::from", "core::convert::Into::into", "alloc::string::ToString::to_string", "alloc::borrow::ToOwned::to_owned",
                          "core::clone::Clone::clone", "alloc::str::<impl alloc::borrow::ToOwned for str>::to_owned", "alloc::string::String::from") and len(vals) == 1:
                v0 = vals[0].get() if isinstance(vals[0], Ref) else vals[0]
                if isinstance(v0, (str, int, float, bool)):
                    return str(v0) if (c.path.endswith("to_string") and not isinstance(v0, str) and not isinstance(v0, bool)) else v0
            if c.path == "core::default::Default::default" and not vals and " -> " in getattr(c, "ty", ""):
                # `Default::default` handed over as a function: the item's type names what it makes (`fn() -> T {..}`)
                rt_ = c.ty.split(" -> ", 1)[1].rsplit(" {", 1)[0].strip()
                return self.default_of(rt_, depth)
            if short(c.path) in ("new", "default") and not vals and c.path.startswith(("alloc::vec::Vec", "alloc::string::String", "core::default::Default", "std::collections::hash")):
                # `Vec::new` / `String::new` / `HashMap::new` / `Default::default` handed over as a function
                if c.path.startswith("alloc::vec::Vec"):
                    return []
                if c.path.startswith("alloc::string::String"):
                    return ""
                if "HashSet" in c.path:
                    return HSet()
                if "HashMap" in c.path:
                    return HMap()
            if "::" in c.path:
                # a tuple-variant / tuple-struct constructor used as a function (`.map(RootDefinition::Function)`)
                adt_path, vname = c.path.rsplit("::", 1)
                adt = self.facts.adts.get(adt_path)
                if adt is not None and any(v.get("name") == vname and len(v.get("fields") or []) == len(vals) for v in adt.get("variants", [])):
                    return Enum(short(adt_path), vname, {str(i): v for i, v in enumerate(vals)})
                adt = self.facts.adts.get(c.path)
                if adt is not None and len(adt.get("variants", [])) == 1 and len(adt["variants"][0].get("fields") or []) == len(vals):
                    return Enum(short(c.path), None, {str(i): v for i, v in enumerate(vals)})
            raise Unknown("call of function value " + c.path)
        raise Unknown("call of %r" % (c,))

    def option_method(self, m, v, rest, env, depth):
        some = isinstance(v, Enum) and v.variant in ("Some", "Ok")
        none = isinstance(v, Enum) and v.variant in ("None", "Err")
        if not (some or none):
            raise Unknown("%s on %r" % (m, v))
        is_res = v.variant in ("Ok", "Err")
        x = v.fields.get("0") if some else None
        ev = lambda i: self.ev(rest[i], env, depth)
        if m == "map":
            return Enum(v.adt, v.variant, {"0": self.call_callable(ev(0), [x], depth)}) if some else v
        if m == "map_or":
            return self.call_callable(ev(1), [x], depth) if some else ev(0)
        if m == "map_or_else":
            return self.call_callable(ev(1), [x], depth) if some else self.call_callable(ev(0), [] if not is_res else [v.fields.get("0")], depth)
        if m == "unwrap_or":
            return x if some else ev(0)
        if m == "unwrap_or_else":
            return x if some else self.call_callable(ev(0), [] if not is_res else [v.fields.get("0")], depth)
        if m in ("unwrap", "expect"):
            if some:
                return x
            raise Unknown("core::panicking: %s on %s" % (m, v.variant))
        if m == "and_then":
            return self.call_callable(ev(0), [x], depth) if some else v
        if m == "ok_or":
            return Enum("Result", "Ok", {"0": x}) if some else Enum("Result", "Err", {"0": ev(0)})
        if m == "ok_or_else":
            return Enum("Result", "Ok", {"0": x}) if some else Enum("Result", "Err", {"0": self.call_callable(ev(0), [], depth)})
        if m == "map_err":
            return v if some else Enum("Result", "Err", {"0": self.call_callable(ev(0), [v.fields.get("0")], depth)})
        if m == "err":
            return Enum("Option", "None") if some else Enum("Option", "Some", {"0": v.fields.get("0")})
        if m == "ok":
            return Enum("Option", "Some", {"0": x}) if some else Enum("Option", "None")
        if m == "as_mut" and some and not isinstance(x, (list, Enum, HSet, HMap, Ref)):
            return Enum(v.adt, v.variant, {"0": Ref(v.fields, "0")})
        if m in ("as_ref", "as_mut", "as_deref", "as_deref_mut"):
            return v
        if m in ("copied", "cloned"):
            return Enum(v.adt, v.variant, {"0": x.get() if isinstance(x, Ref) else x}) if some else v
        if m in ("or_else",):
            return v if some else self.call_callable(ev(0), [v.fields.get("0")] if is_res else [], depth)
        if m in ("and",):
            return ev(0) if some else v
        if m in ("xor",):
            o_ = ev(0)
            so = isinstance(o_, Enum) and o_.variant == "Some"
            return v if (some and not so) else (o_ if (so and not some) else Enum("Option", "None"))
        if m in ("unwrap_or_default",):
            return x if some else 0
        if m in ("is_none_or",):
            return bool(none or self.truth(self.call_callable(ev(0), [x], depth)))
        if m in ("is_ok_and",):
            return bool(some and self.truth(self.call_callable(ev(0), [x], depth)))
        if m in ("flatten",):
            return x if some else v
        if m in ("iter", "into_iter"):
            return [x] if some else []
        if m == "is_some_and":
            return bool(some and self.truth(self.call_callable(ev(0), [x], depth)))
        if m == "filter":
            return v if some and self.truth(self.call_callable(ev(0), [x], depth)) else Enum("Option", "None")
        if m == "zip":
            o = ev(0)
            if some and isinstance(o, Enum) and o.variant == "Some":
                return Enum("Option", "Some", {"0": (x, o.fields.get("0"))})
            if isinstance(o, Enum) and o.variant in ("Some", "None"):
                return Enum("Option", "None")
            raise Unknown("zip with %r" % (o,))
        if m == "or":
            return v if some else ev(0)
        raise Unknown("Option/Result method " + m)

    def hash_method(self, gen, args, env, depth):
        m = short(gen)
        is_set = "::set::HashSet" in gen
        if m in ("new", "with_capacity", "default"):
            return HSet() if is_set else HMap()
        recv = self.ev(args[0], env, depth)
        on_container = "::set::HashSet" in gen or "::map::HashMap" in gen
        if isinstance(recv, Ref) and (on_container or not isinstance(recv, MapSlot)):
            recv = recv.get()
        ev = lambda i: self.ev(args[i], env, depth)
        if isinstance(recv, HSet):
            if m in ("difference", "intersection", "union", "symmetric_difference", "is_subset", "is_superset", "is_disjoint"):
                o_ = ev(1)
                o_ = o_.get() if isinstance(o_, Ref) else o_
                if not isinstance(o_, HSet):
                    raise Unknown("HashSet::%s with %r" % (m, o_))
                a_, b_ = list(recv.items), list(o_.items)
                if m == "difference":
                    return self.hash_order([x for x in a_ if x not in b_])
                if m == "intersection":
                    return self.hash_order([x for x in a_ if x in b_])
                if m == "union":
                    return self.hash_order(a_) + self.hash_order([x for x in b_ if x not in a_])
                if m == "symmetric_difference":
                    return self.hash_order([x for x in a_ if x not in b_]) + self.hash_order([x for x in b_ if x not in a_])
                if m == "is_subset":
                    return all(x in b_ for x in a_)
                if m == "is_superset":
                    return all(x in a_ for x in b_)
                return not any(x in b_ for x in a_)
            if m == "insert":
                return recv.add(ev(1))
            if m == "contains":
                x = ev(1)
                return x in recv
            if m == "remove":
                x = ev(1)
                if x in recv.items:
                    recv.items.remove(x)
                    return True
                return False
            if m == "clone":
                return HSet(recv.items)
            if m in ("len",):
                return len(recv.items)
            if m == "is_empty":
                return not recv.items
            if m in ("iter", "into_iter", "drain"):
                return self.hash_order(list(recv.items))
            if m == "extend":
                for x in ev(1):
                    recv.add(x)
                return ()
        if isinstance(recv, HMap):
            if m == "insert":
                had, old = recv.put(ev(1), ev(2))
                return Enum("Option", "Some", {"0": old}) if had else Enum("Option", "None")
            if m in ("get", "get_mut"):
                k = ev(1)
                if not recv.has(k):
                    return Enum("Option", "None")
                return Enum("Option", "Some", {"0": MapSlot(recv, k) if m == "get_mut" else recv.get(k)})
            if m == "contains_key":
                return recv.has(ev(1))
            if m == "remove":
                had, old = recv.pop(ev(1))
                return Enum("Option", "Some", {"0": old}) if had else Enum("Option", "None")
            if m == "len":
                return len(recv.keys)
            if m == "is_empty":
                return not recv.keys
            if m in ("iter", "into_iter", "iter_mut", "drain"):
                return self.hash_order([(k, v) for k, v in recv.items()])
            if m == "keys":
                return self.hash_order([k for k, v in recv.items()])
            if m in ("values", "values_mut", "into_values"):
                return self.hash_order([v for k, v in recv.items()])
            if m == "clone":
                c = HMap()
                for k, v in recv.items():
                    c.put(k, v)
                return c
            if m == "entry":
                k = ev(1)
                return Enum("Entry", "Occupied" if recv.has(k) else "Vacant", {"0": MapSlot(recv, k)})
        if isinstance(recv, Enum) and recv.adt == "Entry":
            slot = recv.fields["0"]
            if m in ("or_default", "or_insert", "or_insert_with"):
                if recv.variant == "Vacant":
                    if m == "or_default":
                        ty = (args[0].get("ty") or "")
                        slot.set([] if "Vec<" in ty else (HSet() if "HashSet<" in ty else (HMap() if "HashMap<" in ty else 0)))
                    elif m == "or_insert":
                        slot.set(ev(1))
                    else:
                        slot.set(self.call_callable(ev(1), [], depth))
                return slot
        if isinstance(recv, MapSlot):
            if m in ("get_mut", "into_mut"):
                return recv
            if m == "get":
                return recv.get()
            if m == "insert":
                old = recv.get()
                recv.set(ev(1))
                return recv if "VacantEntry" in gen else old
            if m == "key":
                return recv.k
        raise Unknown("hash container method %s on %r" % (m, recv))

    def hash_order(self, items):
        return items[::-1] if self.reverse_hash_order else items

    def call_closure(self, c, vals, depth):
        body = self.facts.bodies.get(c.path)
        if body is not None and depth >= self.max_depth:
            raise DepthExceeded("closure body " + str(c.path))
        if body is None:
            raise Unknown("closure body " + str(c.path))
        env = ScopeEnv(c.env)
        params = body.get("params", [])[1:]
        if len(params) != len(vals):
            raise Unknown("closure arity")
        for p, v in zip(params, vals):
            if "pat" in p and not self.match_pat(p["pat"], v, env):
                raise Unknown("closure param pattern")
        try:
            return self.ev(body["thir"], env, depth + 1)
        except ReturnEx as r:
            return r.value

    def apply(self, body, vals, depth=0):
        env = {}
        params = body.get("params", [])
        if len(params) != len(vals):
            raise Unknown("arity")
        for p, v in zip(params, vals):
            if "pat" in p and not self.match_pat(p["pat"], v, env):
                raise Unknown("param pattern")
        try:
            return self.ev(body["thir"], env, depth)
        except ReturnEx as r:
            return r.value


def unit(adt, variant):
    return Enum(adt, variant)
