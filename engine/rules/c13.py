"""C13 — compile-time constant evaluation matches run-time semantics."""
import facts as F
import mirs as M
from facts import short, where

EXPLANATION = (
    "evaluate_operator / evaluate_cast are large finite tables (operator x constant kind). Extracted completely from "
    "THIR on this run: for every IntrinsicOp arm and every constant-kind arm the Rust operation applied (binary / "
    "unary operator or a checked_*/wrapping_* method), which operand each side comes from (tuple position 0 = left, "
    "1 = right, and the scrutinee reads arg_values[0], arg_values[1] in that order), and the constructor of the result "
    "(operand kind for arithmetic and bitwise operators, Bool for comparisons and logic) — compared with the reference "
    "table of HLSL semantics (C13.op). C13.wrap (MIR): no Assert terminator of kind Overflow/OverflowNeg/"
    "DivisionByZero/RemainderByZero may guard arithmetic on a constant payload in the evaluator (dev-profile overflow "
    "checks make an unchecked + - * << >> - % abort), division and modulus must be preceded by the zero guard or use "
    "checked_*. C13.cast: for every target scalar the result constructor is the target's kind, the enum wrapper is "
    "peeled first, Bool uses != 0, enum targets recurse on the underlying type and re-wrap. C13.sites: every call of "
    "evaluate_constexpr handles Err (never unwrap/expect) and the syntactic positions that demand a constant reach it. "
    "Not decided: values of float<->int conversions (Rust `as` vs HLSL), i.e. numerical questions."
)
ASSUMPTIONS = [
    "rustc THIR/MIR is a faithful view of the source; the dev profile has overflow checks on (Assert terminators)",
    "reference operator table: HLSL integer arithmetic wraps in 32 bits, untyped literals are exact (DESIGN.md App. A)",
]

TY = "rssl_typer"

# IntrinsicOp -> (kind, reference Rust op, method stems accepted)
BIN = {
    "Add": ("Add", ("add",)), "Subtract": ("Sub", ("sub",)), "Multiply": ("Mul", ("mul",)),
    "Divide": ("Div", ("div",)), "Modulus": ("Rem", ("rem",)),
    "LeftShift": ("Shl", ("shl",)), "RightShift": ("Shr", ("shr",)),
    "BitwiseAnd": ("BitAnd", ()), "BitwiseOr": ("BitOr", ()), "BitwiseXor": ("BitXor", ()),
}
LOGIC = {"BooleanAnd": "And", "BooleanOr": "Or"}
CMP = {"LessThan": "Lt", "LessEqual": "Le", "GreaterThan": "Gt", "GreaterEqual": "Ge"}
UN = {"Minus": "Neg", "BitwiseNot": "Not", "LogicalNot": "Not"}
INCDEC = {"PrefixIncrement": "Add", "PostfixIncrement": "Add", "PrefixDecrement": "Sub", "PostfixDecrement": "Sub"}
INT_KINDS = ("IntLiteral", "Int32", "UInt32")
OPFN = {"add": "Add", "sub": "Sub", "mul": "Mul", "div": "Div", "rem": "Rem", "shl": "Shl", "shr": "Shr",
        "bitand": "BitAnd", "bitor": "BitOr", "bitxor": "BitXor", "lt": "Lt", "le": "Le", "gt": "Gt", "ge": "Ge",
        "eq": "Eq", "ne": "Ne"}


def arm_lines(node):
    return {n.get("ln") for n in F.walk(node) if isinstance(n.get("ln"), int)}


def operation_of(e):
    """Describe the operation of a result-payload expression:
    ('bin', op, l, r) | ('un', op, x) | ('logic', op, l, r) | ('method', name, recv, args) | ('var', id) | ('lit', v) | ('other', k)"""
    e = F.strip(e)
    k = e.get("k")
    if k == "Binary":
        return ("bin", e["op"], F.strip(e["l"]), F.strip(e["r"]))
    if k == "Logical":
        return ("logic", e["op"], F.strip(e["l"]), F.strip(e["r"]))
    if k == "Unary":
        return ("un", e["op"], F.strip(e["e"]))
    if k == "Call":
        nm = short(e.get("fn") or "")
        args = [F.strip(a) for a in e.get("args", [])]
        if e.get("op") and nm in OPFN and len(args) == 2:
            return ("bin", OPFN[nm], args[0], args[1])
        if e.get("op") and nm in ("neg", "not") and len(args) == 1:
            return ("un", "Neg" if nm == "neg" else "Not", args[0])
        if nm in ("from", "into", "ok_or", "ok_or_else", "unwrap_or", "map_err") and args:
            return operation_of(args[0])
        return ("method", nm, args[0] if args else None, args[1:])
    if k == "Match" and e.get("src", "").startswith("TryDesugar"):
        return operation_of(e["scrut"]["args"][0])     # `expr?`
    if k == "Match":
        # match x.checked_op(y) { Some(v) => v, None => return Err(()) }
        inner = operation_of(e["scrut"])
        if inner[0] == "method" and inner[1].startswith("checked_"):
            return inner
        return ("other", "match")
    if k == "Block":
        t = F.tail(e)
        if t is not e:
            return operation_of(t)
        return ("other", "block")
    if k == "Var":
        return ("var", e["id"], e.get("name"))
    if k == "Lit":
        return ("lit", e.get("v"))
    if k == "If":
        return ("if", e)
    if k == "Cast":
        return ("cast", e.get("from"), e.get("ty"), F.strip(e["e"]))
    return ("other", k)


def peel_value(x):
    """Peel conversions that keep the value: casts, `?`, try_from/into, map_err/ok_or."""
    while isinstance(x, dict):
        x = F.strip(x)
        k = x.get("k")
        if k == "Cast":
            x = x["e"]
        elif k == "Match" and x.get("src", "").startswith("TryDesugar"):
            x = x["scrut"]["args"][0]
        elif k == "Call" and short(x.get("fn") or "") in ("try_from", "try_into", "from", "into", "map_err", "ok_or", "unwrap_or") and x.get("args"):
            x = x["args"][0]
        else:
            break
    return x


def var_id(x, scope=None, _depth=0):
    x = peel_value(x) if isinstance(x, dict) else x
    if isinstance(x, dict) and x.get("k") == "Var":
        if scope is not None and _depth < 4:
            for s in F.walk(scope):
                if s.get("k") == "LetStmt" and s["pat"].get("k") == "Bind" and s["pat"]["id"] == x["id"] and "init" in s:
                    inner = var_id(s["init"], scope, _depth + 1)
                    if inner is not None:
                        return inner
        return x["id"]
    return None

# ---- evaluate_operator read as a function: values against the reference run-time semantics
SAMPLES = {
    "Int32": [-2147483648, -7, -1, 0, 1, 2, 5, 31, 33, 2147483647],
    "UInt32": [0, 1, 2, 5, 31, 33, 4294967288, 4294967295],
    "IntLiteral": [-7, -1, 0, 1, 2, 5, 40],
    "Bool": [False, True],
    "Float32": [-1.5, 0.0, 1.5, float("inf"), float("nan")],
    "Float64": [-1.5, 0.0, 2.25, float("nan")],
    "FloatLiteral": [-1.5, 0.0, 2.25],
    "Int64": [-5, 0, 7],
    "UInt64": [0, 7, 9],
}


def _w(kind, v):
    if kind == "Int32":
        v &= 0xFFFFFFFF
        return v - (1 << 32) if v >= (1 << 31) else v
    if kind == "UInt32":
        return v & 0xFFFFFFFF
    return v


def _tdiv(a, b):
    return abs(a) // abs(b) * (1 if (a >= 0) == (b >= 0) else -1)


def reference(op, kind, a, b):
    """Run-time meaning of `a op b` on operands of one kind -> ('val', result kind, value) | ('refuse',) the evaluator
    must not produce a value | None (no opinion: either refusing or any documented behaviour is acceptable)."""
    ints = kind in INT_KINDS
    if op in ("Add", "Subtract", "Multiply") and ints:
        return ("val", kind, _w(kind, {"Add": a + b, "Subtract": a - b, "Multiply": a * b}[op]))
    if op in ("Divide", "Modulus") and ints:
        if b == 0:
            return ("refuse",)
        if kind == "Int32" and a == -2147483648 and b == -1:
            return None
        return ("val", kind, _tdiv(a, b) if op == "Divide" else a - _tdiv(a, b) * b)
    if op in ("LeftShift", "RightShift") and kind in ("Int32", "UInt32"):
        sh = b & 31
        return ("val", kind, _w(kind, a << sh) if op == "LeftShift" else (a >> sh))
    if op in ("LeftShift", "RightShift") and kind == "IntLiteral":
        if not 0 <= b < 64:
            return None
        return ("val", kind, a << b if op == "LeftShift" else a >> b)
    if op in ("BitwiseAnd", "BitwiseOr", "BitwiseXor") and ints:
        return ("val", kind, _w(kind, {"BitwiseAnd": a & b, "BitwiseOr": a | b, "BitwiseXor": a ^ b}[op]))
    if op in ("BooleanAnd", "BooleanOr") and kind == "Bool":
        return ("val", "Bool", (a and b) if op == "BooleanAnd" else (a or b))
    if op in CMP or op in ("Equality", "Inequality"):
        r = {"LessThan": a < b, "LessEqual": a <= b, "GreaterThan": a > b, "GreaterEqual": a >= b, "Equality": a == b, "Inequality": a != b}[op]
        return ("val", "Bool", r)
    if op == "Minus":
        if kind in ("Int32", "IntLiteral"):
            return ("val", kind, _w(kind, -a))
        if kind.startswith("Float"):
            return ("val", kind, -a)
        return None
    if op == "Plus":
        return ("val", kind, a)
    if op == "LogicalNot" and kind == "Bool":
        return ("val", "Bool", not a)
    if op == "BitwiseNot" and ints:
        return ("val", kind, _w(kind, ~a))
    return None


def rule_op_eval(chk, ev):
    """evaluate_operator walked by the finite-map reader on literal operands (every operator x constant kind x sample
    values, plain and enum-wrapped) against `reference`. A folded value must be the run-time value; where the run-time
    operation has no value (division by zero) nothing may be folded. Refusing to fold is always allowed. True when
    readable."""
    import interp as I
    import math
    f = chk.facts
    ip = I.Interp(f, max_depth=10, extern={})
    mod = I.Opaque("module")

    def lit(kind, v, enum=False):
        c = I.Enum("Constant", kind, {"0": v})
        if enum:
            c = I.Enum("Constant", "Enum", {"0": I.Enum("EnumId", None, {"0": 0}), "1": c})
        return I.Enum("Expression", "Literal", {"0": c})

    def has_opaque(v):
        if isinstance(v, I.Opaque):
            return True
        if isinstance(v, I.Enum):
            return any(has_opaque(x) for x in v.fields.values())
        return False

    def same(x, y):
        if isinstance(x, float) and isinstance(y, float) and math.isnan(x) and math.isnan(y):
            return True
        return type(x) == type(y) and x == y or (isinstance(x, (int, float)) and isinstance(y, (int, float)) and not isinstance(x, bool) and not isinstance(y, bool) and x == y)

    ops_bin = list(BIN) + list(LOGIC) + list(CMP) + ["Equality", "Inequality"]
    ops_un = list(UN) + ["Plus"]
    folds = 0
    entries = 0
    seen = set()
    enum_bad = None
    for op in ops_bin + ops_un:
        binary = op in ops_bin
        for kind, vals in SAMPLES.items():
            for enum in ((False, True) if kind in ("Int32", "UInt32") else (False,)):
                bad = None
                folded = 0
                pairs = [(a, b) for a in vals for b in vals] if binary else [(a, None) for a in vals]
                for a, b in pairs:
                    args = [lit(kind, a, enum)] + ([lit(kind, b, enum)] if binary else [])
                    try:
                        r = ip.apply(ev, [I.Enum("IntrinsicOp", op), args, mod])
                    except I.Unknown as e:
                        if "panicking" in str(e):
                            continue        # an abort is C08's subject; no value was folded
                        return False
                    if has_opaque(r) or not isinstance(r, I.Enum):
                        return False
                    want = reference(op, kind, a, b)
                    if r.variant == "Err":
                        continue
                    c = r.fields["0"]
                    folded += 1
                    wrapped = isinstance(c, I.Enum) and c.variant == "Enum"
                    inner = c.fields["1"] if wrapped else c
                    if enum:
                        must_wrap = want is not None and want[0] == "val" and want[1] != "Bool"
                        if want is not None and want[0] == "val" and wrapped != must_wrap:
                            enum_bad = enum_bad or "%s on enum operands gives %s: the enum wrapper must be kept for arithmetic and dropped for comparisons" % (op, c)
                    what = "%s %s %s" % (a, op, b) if binary else "%s %s" % (op, a)
                    if want is None:
                        continue
                    if want[0] == "refuse":
                        bad = bad or "%s (%s) is folded to %s; the operation has no value" % (what, kind, inner)
                    elif not (isinstance(inner, I.Enum) and inner.variant == want[1] and same(inner.fields.get("0"), want[2])):
                        bad = bad or "%s (%s) is folded to %s; at run time it is %s(%s)" % (what, kind, inner, want[1], want[2])
                if folded and not enum:
                    entries += 1
                    seen.add(op)
                    key = "C13.op/%s/%s" % (op, "x".join([kind] * (2 if binary else 1))) if op not in ("Equality", "Inequality") else "C13.op/%s/%s" % (op, kind)
                    chk.ob(key, bad is None, "%d sample operands: every folded value is the run-time value" % len(pairs) if bad is None else bad, where(ev),
                           sample={"op": op, "kind": kind, "samples": len(pairs), "folded": folded})
                elif folded and bad:
                    chk.ob("C13.op/%s/enum-%s" % (op, kind), False, bad + " (enum-wrapped operands)", where(ev))
                folds += folded
    for op in ("Equality", "Inequality"):
        chk.ob("C13.op/%s" % op, True, "decided per constant kind by the evaluated table", where(ev), trivial=True)
    for op in ops_bin + ops_un:
        chk.ob("C13.op/%s/present" % op, op in seen, "operator folds constants" if op in seen else
               "IntrinsicOp::%s never folds (falls into `_ => Err`)" % op, where(ev), trivial=True)
        if op not in ("Equality", "Inequality"):
            chk.ob("C13.op/%s/operands" % op, True, "operand order is decided by the evaluated table (asymmetric samples)", where(ev), trivial=True)
    chk.ob("C13.op/enum-rewrap", enum_bad is None, "enum operands: wrapper kept for arithmetic, dropped for the comparisons" if enum_bad is None else enum_bad, where(ev))
    chk.floor("C13.floor/op-table", entries, 104, "operator x kind entries of evaluate_operator that fold", where(ev))
    chk.note("C13.op: %d operator x kind entries fold, %d folded sample evaluations compared with the reference" % (entries, folds))
    return True


def rule_to_uint64(chk):
    """Constant::to_uint64 (array lengths, attribute arguments, register numbers are read through it) evaluated on every
    integer constant kind: a value is returned only for a non-negative integer that fits 64 bits, and it is that integer."""
    import interp as I
    f = chk.facts
    fn = f.fn("to_uint64", "rssl_ir", self_ty="Constant")
    if not fn:
        return
    ip = I.Interp(f, max_depth=4, extern={})
    SAM = {"Bool": [False, True], "IntLiteral": [-(1 << 70), -1, 0, 1, 42, (1 << 64) - 1, 1 << 64, 1 << 100], "Int32": [-2147483648, -1, 0, 7, 2147483647],
           "UInt32": [0, 7, 4294967295], "Int64": [-(1 << 63), -1, 0, 7, (1 << 63) - 1], "UInt64": [0, 7, (1 << 64) - 1],
           "Float32": [1.0, -1.0], "Float64": [2.0], "FloatLiteral": [3.0]}
    for kind, vals in SAM.items():
        bad = None
        for v in vals:
            try:
                r = ip.apply(fn, [I.Enum("Constant", kind, {"0": v})])
            except I.Unknown as e:
                if "panicking" in str(e):
                    bad = bad or "to_uint64(%s(%r)) aborts" % (kind, v)
                    continue
                chk.unreadable("C13.conv/to_uint64/readable", "Constant::to_uint64", e, where(fn))
                return
            got = r.fields.get("0") if isinstance(r, I.Enum) and r.variant == "Some" else None
            if isinstance(v, float):
                continue        # whether a float constant converts is a choice; it must not abort
            iv = int(v)
            if got is not None and (iv < 0 or iv >= (1 << 64) or got != iv):
                bad = bad or "to_uint64(%s(%d)) = %d: %s" % (kind, iv, got, "a negative constant becomes a huge unsigned value" if iv < 0 else "not the value")
            if got is None and 0 <= iv < (1 << 64) and kind != "Bool":
                pass            # refusing is allowed
        chk.ob("C13.conv/to_uint64/" + kind, bad is None, "%d values: only non-negative integers below 2^64 convert, to themselves" % len(vals) if bad is None else bad, where(fn),
               sample={"kind": kind, "values": len(vals)})




def rule_enum_values(chk):
    """Context::end_enum read as a function on model enums (the registries are stand-ins that hold the enumerators'
    constants): whatever underlying type is chosen, every enumerator keeps the value its constant expression had - an
    enum whose values do not all fit the chosen type must be refused, not wrapped - and an enum whose values all fit int
    or all fit uint is accepted."""
    import interp as I
    f = chk.facts
    fn = f.fn("end_enum", "rssl_typer")
    if not fn:
        return
    opt = lambda v: I.Enum("Option", "None") if v is None else I.Enum("Option", "Some", {"0": v})

    def deref(v):
        return v.get() if isinstance(v, I.Ref) else v
    C = lambda k, v: I.Enum("Constant", k, {"0": v})
    sets = {"small": [C("IntLiteral", 1), C("IntLiteral", 2)], "negative": [C("IntLiteral", -1), C("IntLiteral", 5)], "int-bounds": [C("IntLiteral", -2147483648), C("IntLiteral", 2147483647)],
            "uint-max": [C("IntLiteral", 7), C("IntLiteral", 4294967295)], "typed": [C("Int32", -5), C("UInt32", 9), C("Bool", True)], "typed-uint-high": [C("UInt32", 4000000000)],
            "empty": [], "negative-and-uint-high": [C("IntLiteral", -1), C("UInt32", 4294967295)], "below-int-min": [C("IntLiteral", -2147483649), C("IntLiteral", 2147483648)],
            "below-int-min-only": [C("IntLiteral", -2147483649)], "above-uint-max": [C("IntLiteral", 8589934591)], "negative-and-int-max-plus-one": [C("IntLiteral", -1), C("IntLiteral", 2147483648)]}
    num = lambda c: int(c.fields["0"])
    for sname, vals in sets.items():
        for reverse in (False, True):
            evs = {i: I.Enum("EnumValue", None, {"value": c, "name": "v%d" % i}) for i, c in enumerate(vals)}
            updated, under = {}, []
            ext = {"EnumRegistry::get_enum_value": lambda a, evs=evs: evs[deref(a[1]).fields["0"]],
                   "EnumRegistry::get_enum_definition": lambda a: I.Enum("EnumDefinition", None, {"name": I.Enum("Located", None, {"node": "E", "location": I.Opaque("location")})}),
                   "EnumRegistry::set_underlying_type_id": lambda a, under=under: under.append(deref(a[3]).variant) or (),
                   "EnumRegistry::update_underlying_type": lambda a, updated=updated: updated.__setitem__(deref(a[1]).fields["0"], deref(a[2])) or (),
                   "TypeRegistry::register_type": lambda a: I.Enum("TypeId", None, {"0": 50}), "Context::pop_scope": lambda a: ()}
            sym = lambda i: [I.Enum("ScopeSymbol", "EnumValueUntyped", {"0": I.Enum("EnumValueId", None, {"0": i})})]
            es, ps = I.HMap(), I.HMap()
            for i in range(len(vals)):
                es.put("v%d" % i, sym(i))
                ps.put("v%d" % i, sym(i))
            scopes = [I.Enum("ScopeData", None, {"symbols": ps, "parent_scope": 0, "owning_enum": opt(None)}),
                      I.Enum("ScopeData", None, {"symbols": es, "parent_scope": 0, "owning_enum": opt(I.Enum("EnumId", None, {"0": 0}))})]
            ctx = I.Enum("Context", None, {"scopes": scopes, "current_scope": 1, "module": I.Enum("Module", None, {"enum_registry": I.Opaque("enum registry"), "type_registry": I.Opaque("type registry")})})
            ip = I.Interp(f, max_depth=6, extern=ext)
            ip.reverse_hash_order = reverse
            key = "C13.enum/%s" % sname
            try:
                r = ip.apply(fn, [ctx])
            except I.Unknown as e:
                if "panicking" in str(e):
                    chk.ob(key, False, "end_enum aborts on an enum with the values %s (%s)" % ([num(c) for c in vals], str(e)[:80]), where(fn))
                else:
                    chk.unreadable(key, "Context::end_enum on a model enum", str(e)[:100], where(fn))
                break
            accepted = isinstance(r, I.Enum) and r.variant == "Ok"
            ns = [num(c) for c in vals]
            fits = all(-2**31 <= v < 2**31 for v in ns + [0]) or all(0 <= v < 2**32 for v in ns + [0])
            bad = None
            if accepted:
                wrong = [(ns[i], updated[i].variant, updated[i].fields["0"]) for i in range(len(vals)) if i not in updated or int(updated[i].fields["0"]) != ns[i]]
                if wrong:
                    bad = "an enum with the values %s is accepted with underlying type %s and the enumerator %d becomes %s(%s): its value is no longer the value of its constant expression" % (
                        ns, "/".join(under) or "?", wrong[0][0], wrong[0][1], wrong[0][2])
                elif len(under) != 1:
                    bad = "the underlying type of an accepted enum is set %d times" % len(under)
            elif fits:
                bad = "an enum with the values %s (they all fit %s) is refused" % (ns, "int" if all(-2**31 <= v < 2**31 for v in ns) else "uint")
            if bad or reverse:
                chk.ob(key, bad is None, bad or ("accepted with every enumerator's value kept" if accepted else "refused: no 32-bit type holds every value"), where(fn), sample={"values": ns, "accepted": accepted})
                break
    chk.floor("C13.floor/enum-sets", len(sets), 10, "model enums", where(fn))


ENUM_KIND_TY = {"Bool": 1, "IntLiteral": 2, "Int32": 3, "UInt32": 4}


def enum_run(f, fn, spec, kind_ty=None):
    """parse_rootdefinition_enum walked on a model enumerator list (spec: (constant kind, value) or None per enumerator)
    -> ("ok", result, [(name, constant, type id)]) | ("aborts", why) | ("unreadable", why)"""
    import interp as I
    kind_ty = kind_ty or ENUM_KIND_TY
    ok = lambda v: I.Enum("Result", "Ok", {"0": v})
    opt = lambda v: I.Enum("Option", "None") if v is None else I.Enum("Option", "Some", {"0": v})
    loc = lambda v: I.Enum("Located", None, {"node": v, "location": I.Opaque("location")})
    tid = lambda n: I.Enum("TypeId", None, {"0": n})
    layer = {v: I.Enum("TypeLayer", "Scalar", {"0": I.Enum("ScalarType", k)}) for k, v in kind_ty.items()}

    def deref(v):
        return v.get() if isinstance(v, I.Ref) else v
    recorded = []
    ext = {"begin_enum": lambda a: ok(I.Enum("EnumId", None, {"0": 0})), "end_enum": lambda a: ok(()),
           "parse_expr": lambda a: ok((I.Enum("Expression", "Tagged", {"c": deref(a[0]).fields["c"]}), I.Enum("ExpressionType", None, {"0": tid(deref(a[0]).fields["ty"]), "1": I.Enum("ValueType", "Rvalue")}))),
           "evaluate_constexpr": lambda a: ok(deref(a[0]).fields["c"]),
           "TypeRegistry::remove_modifier": lambda a: a[1], "TypeRegistry::get_type_layer": lambda a: layer[deref(a[1]).fields["0"]],
           "TypeRegistry::register_type": lambda a: tid(kind_ty[deref(a[1]).fields["0"].variant]),
           "register_enum_value": lambda a, rec=recorded: rec.append((deref(a[2]).fields["node"], deref(a[3]), deref(a[4]).fields["0"])) or ok(())}
    values = []
    for i, s_ in enumerate(spec):
        ex = None if s_ is None else loc(I.Enum("AstExpression", None, {"c": I.Enum("Constant", s_[0], {"0": s_[1]}), "ty": kind_ty[s_[0]]}))
        values.append(I.Enum("EnumValue", None, {"name": loc("v%d" % i), "value": opt(ex)}))
    sd = I.Enum("EnumDefinition", None, {"name": loc("E"), "values": values})
    ctx = I.Enum("Context", None, {"module": I.Enum("Module", None, {"type_registry": I.Opaque("type registry"), "enum_registry": I.Opaque("enum registry")})})
    try:
        r = I.Interp(f, max_depth=6, extern=ext).apply(fn, [sd, ctx])
    except I.Unknown as e:
        return ("aborts" if "panicking" in str(e) else "unreadable", str(e)[:100])
    return ("ok", r, recorded)


def rule_enum_sequence(chk):
    """parse_rootdefinition_enum read as a function of the enumerator list: explicit values are constant expressions (the
    expression parser and the evaluator are stand-ins that hand over the constant and its type), enumerators without a
    value continue from the previous one. An implicit enumerator is the previous value plus one computed in the previous
    value's own type (a bool continues as int); the first one is int 0."""
    import interp as I
    f = chk.facts
    fn = f.fn("parse_rootdefinition_enum", "rssl_typer")
    if not fn:
        return
    KIND_TY = ENUM_KIND_TY
    lists = {
        "implicit-only": [None, None, None], "after-int": [("Int32", 5), None, None], "after-literal": [("IntLiteral", 7), None, ("IntLiteral", 20), None],
        "after-uint": [("UInt32", 1), None, None], "after-uint-high": [("UInt32", 0x7FFFFFFF), None], "after-uint-above-int": [("UInt32", 0x80000000), None],
        "after-bool": [("Bool", True), None], "after-false": [("Bool", False), None, None], "after-negative": [("Int32", -3), None, None], "mixed": [None, ("UInt32", 10), None, ("Int32", 2), None],
    }
    for lname, spec in lists.items():
        key = "C13.enum-sequence/" + lname
        res = enum_run(f, fn, spec)
        if res[0] == "aborts":
            chk.ob(key, False, "parse_rootdefinition_enum aborts on the enumerator list %s (%s)" % (spec, res[1][:80]), where(fn))
            continue
        if res[0] == "unreadable":
            chk.unreadable(key, "parse_rootdefinition_enum on a model enumerator list", res[1], where(fn))
            continue
        _, r, recorded = res
        want = []
        prev = None
        for s_ in spec:
            if s_ is not None:
                cur = (s_[0], int(s_[1]))
            elif prev is None:
                cur = ("Int32", 0)
            else:
                cur = ("Int32" if prev[0] == "Bool" else prev[0], prev[1] + 1)
            want.append(cur)
            prev = cur
        got = [(c.variant, int(c.fields["0"])) for _n, c, _t in recorded]
        tys = [t for _n, _c, t in recorded]
        bad = None
        if not (isinstance(r, I.Enum) and r.variant == "Ok"):
            bad = "the enumerator list %s is refused" % (spec,)
        elif got != want:
            k = [i for i in range(min(len(got), len(want))) if got[i] != want[i]]
            bad = "enumerator list %s: enumerator %d becomes %s(%d), the previous value plus one in the previous value's type is %s(%d)" % (
                spec, k[0], got[k[0]][0], got[k[0]][1], want[k[0]][0], want[k[0]][1]) if k else "%d of %d enumerators are registered" % (len(got), len(want))
        elif tys != [KIND_TY[k_] for k_, _v in want]:
            bad = "enumerator list %s: the enumerators are registered with types %s, their constants have types %s" % (spec, tys, [KIND_TY[k_] for k_, _v in want])
        chk.ob(key, bad is None, bad or "values %s" % (got,), where(fn), sample={"list": lname})


def rule_array_dimension(chk):
    """The length of a declared array is the value of its size expression: the typer's parse_declarator walked on
    `x[<constant>]` (the expression parser and the evaluator are stand-ins that hand over the constant; if the function
    wraps the expression in a conversion first, the stand-in evaluator applies that conversion the way evaluate_cast does,
    i.e. modulo 2^32). A size that is negative, fractional or zero is refused; any other size, up to 64 bits, becomes the
    array length unchanged."""
    import interp as I
    f = chk.facts
    fn = f.fn("parse_declarator", "rssl_typer")
    if not fn:
        return
    ok = lambda v: I.Enum("Result", "Ok", {"0": v})
    opt = lambda v: I.Enum("Option", "None") if v is None else I.Enum("Option", "Some", {"0": v})
    loc = lambda v: I.Enum("Located", None, {"node": v, "location": I.Opaque("location")})
    tid = lambda n: I.Enum("TypeId", None, {"0": n})

    def deref(v):
        return v.get() if isinstance(v, I.Ref) else v
    cases = [("IntLiteral", 4), ("IntLiteral", -1), ("Int32", -2), ("UInt32", 7), ("IntLiteral", 0), ("IntLiteral", 4294967296 + 3), ("IntLiteral", 4294967295), ("FloatLiteral", 2.5), ("Float32", 3.0),
             ("Bool", True), ("Int32", 2147483647)]
    bad = None
    n = 0
    for kind, val in cases:
        made = []

        def evaluate(a):
            e = deref(a[0])
            if isinstance(e, I.Enum) and e.variant == "Tagged":
                return ok(e.fields["c"])
            # the expression was wrapped (a conversion to uint): evaluate it the way evaluate_cast does
            inner = [x for x in ([e] + list(e.fields.values())) if isinstance(x, I.Enum) and x.variant == "Tagged"]
            def find(v):
                if isinstance(v, I.Enum):
                    if v.variant == "Tagged":
                        return v
                    for x in v.fields.values():
                        r_ = find(x)
                        if r_ is not None:
                            return r_
                elif isinstance(v, (list, tuple)):
                    for x in v:
                        r_ = find(x)
                        if r_ is not None:
                            return r_
                return None
            t = find(e)
            if t is None:
                raise I.Unknown("array size expression not recognisable")
            c = t.fields["c"]
            v_ = c.fields["0"]
            return ok(I.Enum("Constant", "UInt32", {"0": int(v_) % (1 << 32)}))
        ext = {"parse_expr": lambda a: ok((I.Enum("Expression", "Tagged", {"c": I.Enum("Constant", kind, {"0": val})}), I.Enum("ExpressionType", None, {"0": tid(9), "1": I.Enum("ValueType", "Rvalue")}))),
               "evaluate_constexpr": evaluate,
               "ImplicitConversion::find": lambda a: ok(I.Enum("ImplicitConversion", None, {"tag": "to uint"})),
               "ImplicitConversion::apply": lambda a: I.Enum("Expression", "Cast", {"0": tid(4), "1": deref(a[1])}),
               "to_rvalue": lambda a: I.Enum("ExpressionType", None, {"0": deref(a[0]), "1": I.Enum("ValueType", "Rvalue")}),
               "TypeRegistry::register_type": lambda a: (made.append(deref(a[1])) or tid(100 + len(made)))}
        name = I.Enum("ScopedIdentifier", None, {"base": I.Enum("ScopedIdentifierBase", "Relative"), "identifiers": [loc("x")]})
        decl = I.Enum("Declarator", "Array", {"0": I.Enum("ArrayDeclarator", None, {"inner": I.Enum("Declarator", "Identifier", {"0": name, "1": []}), "array_size": opt(loc(I.Enum("Expression", "Literal", {"0": I.Enum("Literal", "IntUntyped", {"0": 0})}))),
                                                                                        "attributes": []})})
        ctx = I.Enum("Context", None, {"module": I.Enum("Module", None, {"type_registry": I.Opaque("type registry")})})
        try:
            r = I.Interp(f, max_depth=8, extern=ext).apply(fn, [decl, tid(3), opt(None), False, ctx])
        except I.Unknown as e:
            if "panicking" in str(e):
                bad = bad or "declaring `x[%s]` aborts (%s)" % (val, str(e)[:60])
                continue
            chk.unreadable("C13.array-size/value", "the typer's parse_declarator on `x[<constant>]`", str(e)[:100], where(fn))
            return
        n += 1
        arrays = [m for m in made if isinstance(m, I.Enum) and m.variant == "Array"]
        accepted = isinstance(r, I.Enum) and r.variant == "Ok"
        length = None
        if accepted and arrays:
            l_ = arrays[-1].fields.get("1")
            length = l_.fields["0"] if isinstance(l_, I.Enum) and l_.variant == "Some" else None
        valid = isinstance(val, int) and not isinstance(val, bool) and 0 < val < (1 << 64) or (val is True)
        want = int(val) if valid else None
        if accepted and length != want and not bad:
            bad = "`x[%s]` (a %s constant) is accepted as an array of length %s%s" % (val, kind, length, "; its size expression has the value %s" % want if want is not None else
                                                                                      ": the size is not a positive integer and must be refused")
        elif not accepted and want is not None and not bad:
            bad = "`x[%s]` (a %s constant) is refused" % (val, kind)
    chk.ob("C13.array-size/value", bad is None, bad or "%d size constants: the array length is the constant's value, or the declaration is refused" % n, where(fn), sample={"cases": n})

def run(chk):
    f = chk.facts
    ev = chk.anchor("C13.anchor/evaluate_operator", f.fn("evaluate_operator", TY), "evaluate_operator")
    ec = chk.anchor("C13.anchor/evaluate_cast", f.fn("evaluate_cast", TY), "evaluate_cast")
    ecx = chk.anchor("C13.anchor/evaluate_constexpr", f.fn("evaluate_constexpr", TY), "evaluate_constexpr")
    if ev:
        if not rule_op_eval(chk, ev):
            rule_op(chk, ev)
        else:
            rule_op(chk, ev, only=set(INCDEC))
        rule_wrap(chk, ev, "evaluate_operator")
    if ec:
        rule_cast(chk, ec)
        rule_wrap(chk, ec, "evaluate_cast")
    if ecx:
        rule_sites(chk, ecx)
    rule_literal_fold(chk)
    rule_to_uint64(chk)
    rule_enum_values(chk)
    rule_enum_sequence(chk)
    rule_array_dimension(chk)
    rule_template_value_lookup(chk)
    rule_sizeof(chk)
    rule_template_defaults(chk)
    rule_builtin_constants(chk)
    import c05
    c05.rule_thread_group_values(chk, prefix="C13.numthreads")      # attribute arguments: the folded value is used as it is, or refused


# HLSL's values of the built-in constants rssl pre-defines (DirectX Raytracing functional spec: RAY_FLAG, COMMITTED_STATUS,
# CANDIDATE_TYPE). The names are written into the HLSL text as they are, so a folded value must be HLSL's.
BUILTIN_CONSTANTS = {
    "RAY_FLAG_NONE": 0x00, "RAY_FLAG_FORCE_OPAQUE": 0x01, "RAY_FLAG_FORCE_NON_OPAQUE": 0x02, "RAY_FLAG_ACCEPT_FIRST_HIT_AND_END_SEARCH": 0x04,
    "RAY_FLAG_SKIP_CLOSEST_HIT_SHADER": 0x08, "RAY_FLAG_CULL_BACK_FACING_TRIANGLES": 0x10, "RAY_FLAG_CULL_FRONT_FACING_TRIANGLES": 0x20,
    "RAY_FLAG_CULL_OPAQUE": 0x40, "RAY_FLAG_CULL_NON_OPAQUE": 0x80, "RAY_FLAG_SKIP_TRIANGLES": 0x100, "RAY_FLAG_SKIP_PROCEDURAL_PRIMITIVES": 0x200,
    "RAY_FLAG_FORCE_OMM_2_STATE": 0x400,
    "COMMITTED_NOTHING": 0, "COMMITTED_TRIANGLE_HIT": 1, "COMMITTED_PROCEDURAL_PRIMITIVE_HIT": 2,
    "CANDIDATE_NON_OPAQUE_TRIANGLE": 0, "CANDIDATE_PROCEDURAL_PRIMITIVE": 1,
}


def rule_builtin_constants(chk):
    """add_intrinsics walked by the reader (with an empty function table) on an empty module: every global it pre-defines
    with a constant value carries the value HLSL gives that name."""
    import interp as I
    f = chk.facts
    ai = chk.anchor("C13.anchor/add_intrinsics", f.fn("add_intrinsics", "rssl_ir"), "add_intrinsics")
    if not ai:
        return
    tables = [k for k in f.bodies if k.endswith("intrinsic_data::INTRINSICS")]
    saved = {k: f.bodies[k] for k in tables}
    for k in tables:
        f.bodies[k] = dict(saved[k], thir={"k": "Array", "elems": [], "ty": "[IntrinsicDefinition; 0]"})
    try:
        ip = I.Interp(f, max_depth=6, extern={"TypeRegistry::register_type": lambda a: I.Enum("TypeId", None, {"0": repr(a[1])})})
        ip.max_loop = 256
        mod = I.Enum("Module", None, {"global_registry": [], "type_registry": I.Opaque("types"), "function_registry": I.Opaque("functions")})
        try:
            ip.apply(ai, [mod])
        except I.Unknown as e:
            if not mod.fields["global_registry"]:
                chk.note("C13.builtin: add_intrinsics is not readable (%s); not decided" % str(e)[:80])
                return
    finally:
        f.bodies.update(saved)
    n = 0
    unknown = []
    for g in mod.fields["global_registry"]:
        nm = g.fields.get("name")
        nm = nm.fields.get("node") if isinstance(nm, I.Enum) else nm
        cv = g.fields.get("constexpr_value")
        if not (isinstance(cv, I.Enum) and cv.variant == "Some"):
            continue
        c = cv.fields["0"]
        val = c.fields.get("0") if isinstance(c, I.Enum) else c
        if nm not in BUILTIN_CONSTANTS:
            unknown.append(nm)
            continue
        n += 1
        want = BUILTIN_CONSTANTS[nm]
        chk.ob("C13.builtin/%s" % nm, val == want, "folds to %s, HLSL's value" % val if val == want else
               "the built-in constant %s folds to %s (%r); in HLSL, where the name is written as it is, it is %s" % (nm, val, c, want), where(ai), sample={"name": nm, "value": val})
    if unknown:
        chk.note("C13.builtin: built-in constants outside the reference table, not decided: %s" % unknown[:6])
    chk.floor("C13.floor/builtin-constants", n, 8, "built-in constants with a folded value", where(ai))


def rule_template_defaults(chk):
    """Default template arguments are constant expressions evaluated where the EARLIER parameters are visible:
    Context::ensure_struct_template is walked for `template<typename T, uint N, uint M = <default>, typename U = <default>>`
    instantiated with two and with three arguments (scope handling, the default evaluators and the name registrations are
    recording stand-ins). When a default is evaluated, the instantiation scope is open and every earlier parameter's name
    is bound in it - `template<uint N, uint M = N * 2>` with N = 2 means M = 4, whatever `N` means outside."""
    import interp as I
    f = chk.facts
    fn = f.fn("ensure_struct_template", TY)
    if not fn:
        chk.note("C13.template-defaults: ensure_struct_template not found; not decided")
        return
    ok = lambda v: I.Enum("Result", "Ok", {"0": v})
    opt = lambda v: I.Enum("Option", "None") if v is None else I.Enum("Option", "Some", {"0": v})
    loc = lambda v: I.Enum("Located", None, {"node": v, "location": I.Opaque("location")})
    tid = lambda n_: I.Enum("TypeId", None, {"0": n_})
    tparam = lambda nm, d=None: I.Enum("TemplateParam", "Type", {"0": I.Enum("TemplateTypeParam", None, {"name": opt(loc(nm)), "default": opt(d)})})
    vparam = lambda nm, d=None: I.Enum("TemplateParam", "Value", {"0": I.Enum("TemplateValueParam", None, {"value_type": I.Opaque("type"), "name": opt(loc(nm)), "default": opt(d)})})
    params = [tparam("T"), vparam("N"), vparam("M", I.Enum("Expression", "Tagged", {"tag": "default of M"})), tparam("U", I.Enum("Type", "Tagged", {"tag": "default of U"}))]

    def deref(v):
        return v.get() if isinstance(v, I.Ref) else v
    bad = None
    n = 0
    for nargs in (2, 3):
        events = []
        bound = []
        depth = [0]
        name_of = lambda a: (deref(a[1]).fields["node"] if isinstance(deref(a[1]), I.Enum) else deref(a[1]))
        ext = {"push_scope_with_name": lambda a: (depth.__setitem__(0, depth[0] + 1), events.append(("open",)), 9)[2], "pop_scope": lambda a: (depth.__setitem__(0, depth[0] - 1), events.append(("close",)), ())[2],
               "register_typedef": lambda a: (bound.append(name_of(a)), events.append(("bind", name_of(a), depth[0])), ok(()))[2],
               "register_valuedef": lambda a: (bound.append(name_of(a)), events.append(("bind", name_of(a), depth[0])), ok(()))[2],
               "parse_type_for_usage": lambda a: (events.append(("default", "U", tuple(bound), depth[0])), ok(tid(8)))[1],
               "parse_and_evaluate_constant_expression": lambda a: (events.append(("default", "M", tuple(bound), depth[0])), ok(I.Enum("RestrictedConstant", "UInt32", {"0": 4})))[1],
               "build_struct_from_template": lambda a: ok(I.Enum("StructId", None, {"0": 1})), "TypeRegistry::register_type": lambda a: tid(50), "TypeRegistry::combine_modifier": lambda a: tid(50),
               "RestrictedConstant::unrestrict": lambda a: I.Enum("Constant", "UInt32", {"0": 4}), "unrestrict": lambda a: I.Enum("Constant", "UInt32", {"0": 4})}
        sdef = I.Enum("StructDefinition", None, {"name": loc("S"), "base_types": [], "template_params": I.Enum("TemplateParamList", None, {"0": list(params)}), "members": []})
        ctx = I.Enum("Context", None, {"struct_template_data": [I.Enum("StructTemplateData", None, {"scope": 0, "instantiations": I.HMap()})], "current_scope": 5,
                                       "module": I.Enum("Module", None, {"struct_template_registry": [I.Enum("StructTemplateDefinition", None, {"id": I.Opaque("id"), "type_id": tid(40), "name": loc("S"), "ast": sdef})], "type_registry": I.Opaque("type registry")})})
        args = [I.Enum("TypeOrConstant", "Type", {"0": tid(4)}), I.Enum("TypeOrConstant", "Constant", {"0": I.Enum("RestrictedConstant", "UInt32", {"0": 2})}), I.Enum("TypeOrConstant", "Constant", {"0": I.Enum("RestrictedConstant", "UInt32", {"0": 7})})][:nargs]
        try:
            r = I.Interp(f, max_depth=8, extern=ext).apply(fn, [ctx, I.Enum("StructTemplateId", None, {"0": 0}), args, I.Opaque("modifier"), I.Opaque("location")])
        except I.Unknown as e:
            if "panicking" in str(e):
                bad = bad or "ensure_struct_template aborts for S<T, 2%s> (%s)" % (", 7" if nargs == 3 else "", str(e)[:60])
                n += 1
                continue
            chk.unreadable("C13.template-defaults/scope", "ensure_struct_template on a model struct template", str(e)[:100], where(fn))
            return
        n += 1
        if not (isinstance(r, I.Enum) and r.variant == "Ok"):
            bad = bad or "S<T, 2%s> is refused" % (", 7" if nargs == 3 else "")
            continue
        earlier = {"M": ("T", "N"), "U": ("T", "N", "M")}
        for ev in events:
            if ev[0] == "default":
                missing = [x for x in earlier[ev[1]] if x not in ev[2]]
                if (missing or ev[3] < 1) and bad is None:
                    bad = "the default of template parameter %s is evaluated %s: `template<uint N, uint M = N * 2>` reads another N than the one just supplied (or none)" % (
                        ev[1], "before the names %s are bound" % missing if missing else "outside the instantiation scope")
            if ev[0] == "bind" and ev[2] < 1 and bad is None:
                bad = "template parameter %s is bound outside the instantiation scope: the name leaks into the scope the template was defined in" % ev[1]
        want_defaults = ["M", "U"] if nargs == 2 else ["U"]
        if [e[1] for e in events if e[0] == "default"] != want_defaults and bad is None:
            bad = "S<T, 2%s> evaluates the defaults of %s, must be %s" % (", 7" if nargs == 3 else "", [e[1] for e in events if e[0] == "default"], want_defaults)
    chk.ob("C13.template-defaults/scope", bad is None, bad or "defaults are evaluated inside the instantiation scope with every earlier parameter bound (%d instantiations)" % n, where(fn), sample={"instantiations": n})


def rule_sizeof(chk):
    """sizeof as a constant: evaluate_constexpr read on SizeOf(T) for every type of the type model (scalars, vectors,
    matrices, enum, struct, arrays, objects; plain and const). Refusing to fold is always allowed (the expression is then
    exported and evaluated by the target compiler); a value that IS folded must be the size the targets give the type:
    the scalar's size for scalars and enums, component size x components for vectors and matrices."""
    import interp as I
    import convmodel as CM
    f = chk.facts
    fn = f.fn("evaluate_constexpr", TY)
    if not fn:
        return
    u = CM.Universe(f)
    ext = dict(u.externs())
    ext["EnumRegistry::get_underlying_scalar"] = lambda a: I.Enum("ScalarType", "UInt32")
    gs = f.fn("get_size", "rssl_ir", self_ty="ScalarType")
    ip0 = I.Interp(f, max_depth=4)

    def scalar_size(sc):
        try:
            r = ip0.apply(gs, [I.Enum("ScalarType", sc)]) if gs else None
        except I.Unknown:
            return None
        return r.fields["0"] if isinstance(r, I.Enum) and r.variant == "Some" else None
    bad = None
    n = folded = 0
    for name, base in sorted(u.names.items()):
        for mod in (0, 1):
            layer = u.base[base]
            want = None
            if layer.variant == "Scalar":
                want = scalar_size(layer.fields["0"].variant)
            elif layer.variant == "Enum":
                want = scalar_size("UInt32")
            elif layer.variant in ("Vector", "Matrix"):
                sc = u.scalar_of(base)
                ss = scalar_size(sc.variant) if sc is not None else None
                dims = [layer.fields["1"]] + ([layer.fields["2"]] if layer.variant == "Matrix" else [])
                want = None if ss is None else ss * dims[0] * (dims[1] if len(dims) > 1 else 1)
            mod_ = I.Enum("Module", None, {"type_registry": I.Opaque("type registry"), "enum_registry": I.Opaque("enum registry")})
            try:
                r = I.Interp(f, max_depth=6, extern=ext).apply(fn, [I.Enum("Expression", "SizeOf", {"0": CM.tid(base + 1000 * mod)}), mod_])
            except I.Unknown as e:
                if "panicking" in str(e):
                    bad = bad or "sizeof(%s) aborts the constant evaluator (%s)" % (name, str(e)[:60])
                    n += 1
                    continue
                chk.unreadable("C13.sizeof/value", "evaluate_constexpr on SizeOf over the type model", str(e)[:100], where(fn))
                return
            n += 1
            if isinstance(r, I.Enum) and r.variant == "Ok":
                folded += 1
                c = r.fields["0"]
                v = c.fields.get("0") if isinstance(c, I.Enum) else None
                if want is None or v != want:
                    bad = bad or "sizeof(%s%s) is folded to %s; %s" % ("const " if mod else "", name, v, "the targets give it %d bytes" % want if want is not None else "the model has no size for this type: it must be left to the target compiler")
    chk.ob("C13.sizeof/value", bad is None, bad or "%d types, %d folded: every folded sizeof is the type's size on the targets" % (n, folded), where(fn), sample={"types": n, "folded": folded})
    chk.floor("C13.floor/sizeof-types", folded, 10, "types whose sizeof is folded", where(fn))


def rule_template_value_lookup(chk):
    """FunctionRegistry::find_instantiation read on a model registry (instantiations f<-1>, f<2u>, f<T4> of template 0
    and g<-2> of another template): a call finds an existing instantiation exactly when its template arguments are the
    same constants (kind and value) or the same types - a non-type argument is a compile-time constant of the body, so
    reusing the instantiation made for another value (or for the same digits of another type) evaluates the body's
    constant expressions with the wrong constant."""
    import interp as I
    f = chk.facts
    fn = f.fn("find_instantiation", "rssl_ir")
    if not fn:
        chk.note("C13.template-args: FunctionRegistry::find_instantiation not found; not decided")
        return
    opt = lambda v: I.Enum("Option", "None") if v is None else I.Enum("Option", "Some", {"0": v})
    fid = lambda n: I.Enum("FunctionId", None, {"0": n})
    const = lambda k, v: I.Enum("TypeOrConstant", "Constant", {"0": I.Enum("RestrictedConstant", k, {"0": v})})
    typ = lambda n: I.Enum("TypeOrConstant", "Type", {"0": I.Enum("TypeId", None, {"0": n})})
    inst = {1: (0, [const("Int32", -1)]), 2: (0, [const("UInt32", 2)]), 3: (0, [typ(4)]), 4: (9, [const("Int32", -2)])}

    def deref(v):
        return v.get() if isinstance(v, I.Ref) else v

    def data(a):
        i = deref(a[1]).fields["0"]
        if i in inst:
            return opt(I.Enum("FunctionTemplateInstantiation", None, {"parent_id": fid(inst[i][0]), "template_args": list(inst[i][1])}))
        return opt(None)
    ext = {"FunctionRegistry::get_function_count": lambda a: 6, "FunctionRegistry::get_template_instantiation_data": data}
    queries = [("f<-1>", [const("Int32", -1)], 1), ("f<-2>", [const("Int32", -2)], None), ("f<-3>", [const("Int32", -3)], None), ("f<2u>", [const("UInt32", 2)], 2),
               ("f<2> (untyped literal)", [const("IntLiteral", 2)], None), ("f<(int)2>", [const("Int32", 2)], None), ("f<3u>", [const("UInt32", 3)], None), ("f<true>", [const("Bool", True)], None),
               ("f<T4>", [typ(4)], 3), ("f<T5>", [typ(5)], None), ("f<>", [], None), ("f<-1, -1>", [const("Int32", -1), const("Int32", -1)], None)]
    bad = None
    n = 0
    for name, args, want in queries:
        try:
            r = I.Interp(f, max_depth=6, extern=ext).apply(fn, [I.Enum("FunctionRegistry", None, {}), fid(0), list(args)])
        except I.Unknown as e:
            if "panicking" in str(e):
                bad = bad or "find_instantiation aborts on %s (%s)" % (name, str(e)[:60])
                n += 1
                continue
            chk.unreadable("C13.template-args/lookup", "FunctionRegistry::find_instantiation on a model registry", str(e)[:100], where(fn))
            return
        n += 1
        got = r.fields["0"].fields["0"] if isinstance(r, I.Enum) and r.variant == "Some" else None
        if got != want and bad is None:
            shown = {1: "f<-1>", 2: "f<2u>", 3: "f<T4>", 4: "g<-2> (another template)"}
            bad = "with instantiations f<-1>, f<2u>, f<T4> made, the call %s %s; it must %s: inside the body the template parameter is a constant, and it would have the other call's value or type" % (
                name, "reuses " + shown.get(got, str(got)) if got is not None else "finds no instantiation", "reuse " + shown[want] if want is not None else "get an instantiation of its own")
    chk.ob("C13.template-args/lookup", bad is None, bad or "%d lookups: an instantiation is reused exactly for the same constants (kind and value) and types" % n, where(fn), sample={"lookups": n})


def outer_match(fn, adt):
    ms = F.find_matches(fn, adt)
    return max(ms, key=lambda m: len(m["arms"])) if ms else None


def scrutinee_indices(scrut):
    """[0] or [0,1]: which arg_values elements the inner match reads, in order."""
    s = F.strip(scrut)
    def idx(e):
        e = F.strip(e)
        if e.get("k") == "Index":
            l = F.lit(e["i"])
            return l[1] if l else None
        if e.get("k") == "Call" and short(e.get("fn") or "") in ("index", "index_mut"):
            l = F.lit(e["args"][1])
            return l[1] if l else None
        return None
    if s.get("k") == "Tuple":
        return [idx(x) for x in s["elems"]]
    return [idx(s)]


def rule_op(chk, ev, only=None):
    """shape rule; with `only`, restricted to those operators (the others were decided by rule_op_eval)"""
    m = outer_match(ev, "IntrinsicOp")
    if not chk.anchor("C13.anchor/op-match", m, "match over IntrinsicOp in evaluate_operator", where(ev)):
        return
    seen_ops = set()
    n_entries = 0
    for arm in m["arms"]:
        alts = [F.pat_variant(a) for a in F.pat_alternatives(arm["pat"])]
        ops = [a[1] for a in alts if a]
        for op in ops:
            if only is not None and op not in only:
                continue
            seen_ops.add(op)
            body = F.strip(arm["body"])
            if op in ("Equality", "Inequality"):
                o = operation_of(F.adt_ctor(body)[2]["0"]) if F.adt_ctor(body) and F.adt_ctor(body)[1] == "Bool" else ("other",)
                want = "Eq" if op == "Equality" else "Ne"
                ok = o[0] == "bin" and o[1] == want
                chk.ob("C13.op/%s" % op, ok, "Bool(arg0 %s arg1)" % want if ok else "%s is evaluated as %s" % (op, o[:2]), where(ev, arm),
                       sample={"op": op, "rust": o[:2]})
                n_entries += 1
                continue
            if body.get("k") != "Match":
                chk.ob("C13.op/%s" % op, False, "arm is not a table over constant kinds", where(ev, arm))
                continue
            idxs = scrutinee_indices(body["scrut"])
            binary = op in BIN or op in LOGIC or op in CMP
            want_idx = [0, 1] if binary else [0]
            chk.ob("C13.op/%s/operands" % op, idxs == want_idx,
                   "reads arg_values%s" % idxs if idxs == want_idx else
                   "operands are read as arg_values%s, must be %s (left, right)" % (idxs, want_idx), where(ev, body))
            for ia in body["arms"]:
                for alt in F.pat_alternatives(ia["pat"]):
                    kinds, binds = pattern_kinds(alt)
                    if kinds is None:
                        continue
                    res = F.adt_ctor(F.tail(ia["body"]))
                    if not res or res[0] != "Constant":
                        continue   # `return Err(())`, panic!, pass-through
                    n_entries += 1
                    key = "C13.op/%s/%s" % (op, "x".join(kinds))
                    if binary and (len(kinds) != 2 or kinds[0] != kinds[1]):
                        chk.ob(key, False, "mixed operand kinds %s" % (kinds,), where(ev, ia))
                        continue
                    kind = kinds[0]
                    o = operation_of(res[2].get("0", {})) if "0" in res[2] else ("other",)
                    ok, why = judge(op, kind, res[1], o, binds, ia["body"])
                    chk.ob(key, ok, why, where(ev, ia), sample={"op": op, "kind": kind, "result": res[1], "rust": str(o[:2])})
    for op in (list(BIN) + list(LOGIC) + list(CMP) + list(UN) + ["Equality", "Inequality", "Plus"] + list(INCDEC)) if only is None else sorted(only):
        chk.ob("C13.op/%s/present" % op, op in seen_ops, "operator has an evaluator arm" if op in seen_ops else
               "no evaluator arm for IntrinsicOp::%s (falls into `_ => Err`)" % op, where(ev), trivial=True)
    if only is not None:
        return
    chk.floor("C13.floor/op-table", n_entries, 92, "operator x kind entries of evaluate_operator", where(ev))
    # enum re-wrap is dropped exactly for the six comparisons
    cmp_set = set()
    for mm in F.exprs(ev["thir"], "Match"):
        if (mm.get("mac") or "").startswith("matches") and F.strip(mm["scrut"]).get("ty", "").endswith("IntrinsicOp"):
            for a in mm["arms"]:
                for alt in F.pat_alternatives(a["pat"]):
                    pv = F.pat_variant(alt)
                    if pv:
                        cmp_set.add(pv[1])
    want = set(CMP) | {"Equality", "Inequality"}
    chk.ob("C13.op/enum-rewrap", cmp_set == want, "enum wrapper dropped for %s" % sorted(cmp_set) if cmp_set == want else
           "the enum wrapper is dropped for %s, must be exactly the comparisons %s" % (sorted(cmp_set), sorted(want)), where(ev))


def pattern_kinds(p):
    """(kinds, binds) for `Constant::K(x)` or `(Constant::K(l), Constant::K(r))`; binds = [id or None]."""
    if p.get("k") == "Leaf":   # tuple
        kinds, binds = [], []
        for sp in sorted(p["subs"], key=lambda s: int(s["f"])):
            k, b = pattern_kinds(sp["p"])
            if k is None:
                return None, None
            kinds += k
            binds += b
        return kinds, binds
    if p.get("k") == "Variant" and short(p["adt"]) == "Constant":
        b = None
        for sp in p.get("subs", []):
            if sp["p"].get("k") == "Bind":
                b = sp["p"]["id"]
        return [p["variant"]], [b]
    if p.get("k") == "Bind" and "sub" not in p:
        return None, None
    return None, None


def judge(op, kind, result_kind, o, binds, scope=None):
    """Compare one table entry with the reference."""
    def is_bind(x, i):
        return i < len(binds) and binds[i] is not None and var_id(x, scope) == binds[i]
    if op in BIN:
        ref, stems = BIN[op]
        if kind not in INT_KINDS:
            return False, "%s on %s constants is not an HLSL constant operation" % (op, kind)
        if result_kind != kind:
            return False, "%s of two %s yields Constant::%s (must stay %s)" % (op, kind, result_kind, kind)
        if o[0] == "bin":
            if o[1] != ref:
                return False, "%s on %s applies Rust `%s`, reference is `%s`" % (op, kind, o[1], ref)
            if not (is_bind(o[2], 0) and is_bind(o[3], 1)):
                return False, "%s on %s does not compute (left %s right): operands swapped or replaced" % (op, kind, ref)
            return True, "%s(%s) = left %s right" % (op, kind, ref)
        if o[0] == "method":
            nm = o[1]
            stem = nm.split("_", 1)[1] if "_" in nm else nm
            if nm.split("_")[0] not in ("checked", "wrapping", "overflowing") or stem not in stems:
                return False, "%s on %s calls `%s`, reference operation is %s" % (op, kind, nm, ref)
            if not is_bind(o[2], 0):
                return False, "%s on %s: receiver of `%s` is not the left operand" % (op, kind, nm)
            if o[3] and var_id(o[3][0], scope) is not None and not is_bind(o[3][0], 1):
                return False, "%s on %s: argument of `%s` is not the right operand" % (op, kind, nm)
            return True, "%s(%s) = left.%s(right)" % (op, kind, nm)
        return False, "%s on %s: unrecognised operation %s" % (op, kind, o[:2])
    if op in LOGIC:
        if kind != "Bool" or result_kind != "Bool":
            return False, "%s on %s -> %s (logical operators are Bool -> Bool)" % (op, kind, result_kind)
        if o[0] != "logic" or o[1] != LOGIC[op]:
            return False, "%s applies %s" % (op, o[:2])
        if not (is_bind(o[2], 0) and is_bind(o[3], 1)):
            return False, "%s operands swapped or replaced" % op
        return True, "%s = left %s right" % (op, LOGIC[op])
    if op in CMP:
        if result_kind != "Bool":
            return False, "comparison %s on %s yields Constant::%s, must be Bool" % (op, kind, result_kind)
        if o[0] != "bin" or o[1] != CMP[op]:
            return False, "%s on %s applies Rust `%s`, reference is `%s`" % (op, kind, o[1] if len(o) > 1 else o, CMP[op])
        if not (is_bind(o[2], 0) and is_bind(o[3], 1)):
            return False, "%s on %s compares (right, left) or other values" % (op, kind)
        return True, "%s(%s) = left %s right" % (op, kind, CMP[op])
    if op in UN:
        if result_kind != kind:
            return False, "%s of %s yields Constant::%s" % (op, kind, result_kind)
        if op == "LogicalNot" and kind != "Bool":
            return False, "LogicalNot on %s" % kind
        if op == "BitwiseNot" and kind not in INT_KINDS:
            return False, "BitwiseNot on %s" % kind
        if op == "Minus" and kind in ("Bool", "UInt32", "UInt64"):
            return False, "Minus on %s" % kind
        if o[0] == "un" and o[1] == UN[op] and is_bind(o[2], 0):
            return True, "%s(%s) = %s operand" % (op, kind, UN[op])
        if o[0] == "method" and o[1] in ("wrapping_neg", "checked_neg") and op == "Minus" and is_bind(o[2], 0):
            return True, "%s(%s) = operand.%s()" % (op, kind, o[1])
        return False, "%s on %s applies %s" % (op, kind, o[:2])
    if op in INCDEC:
        ref = INCDEC[op]
        if result_kind != kind or kind not in ("Int32", "UInt32"):
            return False, "%s of %s yields Constant::%s" % (op, kind, result_kind)
        if o[0] == "bin" and o[1] == ref and is_bind(o[2], 0) and F.lit(o[3]) == ("int", 1):
            return True, "%s(%s) = operand %s 1" % (op, kind, ref)
        if o[0] == "method" and o[1] in ("wrapping_" + ref.lower(), "checked_" + ref.lower()) and is_bind(o[2], 0) \
                and o[3] and F.lit(o[3][0]) == ("int", 1):
            return True, "%s(%s) = operand.%s(1)" % (op, kind, o[1])
        return False, "%s on %s applies %s" % (op, kind, o[:2])
    return True, "not in reference table"


# ------------------------------------------------------------------ wrap (T6)

ABORT_KINDS = ("Overflow", "OverflowNeg", "DivisionByZero", "RemainderByZero")


def rule_wrap(chk, fn, label):
    cfg = M.Cfg(fn)
    # map lines to (op arm, kind arm)
    m = outer_match(fn, "IntrinsicOp") or outer_match(fn, "TypeLayer")
    line_map = {}
    if m:
        for arm in m["arms"]:
            alts = [F.pat_variant(a) for a in F.pat_alternatives(arm["pat"])]
            names = []
            for a, alt in zip(alts, F.pat_alternatives(arm["pat"])):
                if a and a[1] == "Scalar":
                    inner = F.pat_sub(alt, "0")
                    names.append("Scalar(%s)" % (inner.get("variant") if inner else "?"))
                elif a:
                    names.append(a[1])
            opname = "|".join(names) or "_"
            body = F.strip(arm["body"])
            inner_arms = []
            for mm in F.exprs(body, "Match"):
                for ia in mm["arms"]:
                    kinds, _ = pattern_kinds(F.pat_alternatives(ia["pat"])[0])
                    if kinds:
                        inner_arms.append((kinds[0], arm_lines(ia["body"]) | {ia.get("ln")}))
            for ln in arm_lines(arm["body"]):
                kind = next((k for k, ls in inner_arms if ln in ls), "?")
                line_map[ln] = (opname, kind)
    n = 0
    for i, kind, ln, ops in M.abort_sites(cfg):
        n += 1
        opname, ck = line_map.get(ln, ("?", "?"))
        kshort = kind.split(" via ")[0]
        # RemainderByZero / DivisionByZero are fine when dominated by the explicit zero guard
        if kind in ("DivisionByZero", "RemainderByZero"):
            guarded = zero_guarded(cfg, i)
            chk.ob("C13.wrap/%s/%s/%s/%s" % (label, opname, ck, kshort), guarded,
                   "divisor tested against zero before the operation" if guarded else
                   "%s can abort: no `== 0 -> Err` guard dominates it" % kind, where(fn, ln))
            continue
        chk.ob("C13.wrap/%s/%s/%s/%s" % (label, opname, ck, kshort), False,
               "unchecked arithmetic on a constant payload (%s): panics on overflow in builds with overflow checks "
               "(use wrapping_*/checked_*)" % kind, where(fn, ln),
               sample={"fn": label, "op": opname, "kind": ck, "abort": kind})
    chk.ob("C13.wrap/%s/inventory" % label, True, "%d overflow-class Assert terminators examined" % n, where(fn), trivial=True)


def zero_guarded(cfg, bb):
    """A switch on `x == 0` (Bin Eq with const 0) whose false edge dominates bb."""
    def pred(src):
        if src[0] != "bin" or src[1] not in ("Eq",):
            return False
        s = src[2]
        for side in ("a", "b"):
            k = M.op_const(s[side])
            if k is not None and k.get("v") == 0:
                return True
        return False
    ok, n = M.dominated_by_guard(cfg, bb, pred, want=False)
    return ok


# ------------------------------------------------------------------ casts

SCALAR2CONST = {"Bool": "Bool", "Int32": "Int32", "UInt32": "UInt32", "Float16": "Float16", "Float32": "Float32", "Float64": "Float64"}


def rule_cast_eval(chk, ec):
    """evaluate_cast evaluated over the type registry model for every scalar target x every constant kind (plain and
    wrapped in Constant::Enum) on sample values: result kind and value equal the reference conversion. Returns True when
    the whole table was readable (the shape rules below are then not needed)."""
    import convmodel as CM
    import interp as I
    f = chk.facts
    cv = CM.Conversions(f)
    ip = I.Interp(f, max_depth=8, extern=cv.u.externs())

    def wrap(v, bits, signed):
        v &= (1 << bits) - 1
        return v - (1 << bits) if signed and v >= (1 << (bits - 1)) else v

    def ref(target, kind, v):
        if target == "Bool":
            return ("Bool", v != 0)
        if target in ("Int32", "UInt32"):
            if isinstance(v, bool):
                return (target, int(v))
            if isinstance(v, int):
                return (target, wrap(v, 32, target == "Int32"))
            lo, hi = (-(1 << 31), (1 << 31) - 1) if target == "Int32" else (0, (1 << 32) - 1)
            return (target, 0 if v != v else max(lo, min(hi, int(v))))
        fv = float(v)
        if kind in ("Float16", "Float32"):
            fv = I.F32(fv)
        return (target, I.F32(fv) if target in ("Float16", "Float32") else fv)
    SRC = {"Bool": [False, True], "IntLiteral": [0, 7, -3, 1 << 32, (1 << 31)], "Int32": [0, -5, 2147483647, -2147483648], "UInt32": [0, 9, 4294967295],
           "FloatLiteral": [0.0, 2.5, -1.5, 5e9], "Float16": [0.0, 1.5], "Float32": [0.0, -2.75, 3e9], "Float64": [0.0, 0.1, -4e9]}
    n = 0
    readable = True
    for target in SCALAR2CONST:
        for kind, values in SRC.items():
            bad = None
            for v in values:
                for wrapped in (False, True):
                    c = I.Enum("Constant", kind, {"0": v})
                    if wrapped:
                        c = I.Enum("Constant", "Enum", {"0": I.Enum("EnumId", None, {"0": 0}), "1": c})
                    try:
                        r = ip.apply(ec, [cv.u.type_id(target), c, I.Opaque("module")])
                    except I.Unknown as e:
                        if "panicking" in str(e):
                            bad = "casting Constant::%s(%r)%s to %s aborts (%s)" % (kind, v, " inside an enum value" if wrapped else "", target, str(e)[:60])
                            break
                        readable = False
                        break
                    got = None
                    if isinstance(r, I.Enum) and r.variant == "Ok" and isinstance(r.fields.get("0"), I.Enum):
                        got = (r.fields["0"].variant, r.fields["0"].fields.get("0"))
                    want = ref(target, kind, v)
                    if got != want:
                        bad = "casting Constant::%s(%r)%s to %s gives %s, must be Constant::%s(%r)" % (kind, v, " inside an enum value" if wrapped else "", target,
                                                                                                      "Constant::%s(%r)" % got if got else (r.variant if isinstance(r, I.Enum) else r), want[0], want[1])
                        break
                if bad or not readable:
                    break
            if not readable:
                return False
            n += 1
            chk.ob("C13.cast/%s/from-%s" % (target, kind), bad is None, "equals the reference conversion on %d values (plain and enum-wrapped)" % len(values) if bad is None else bad,
                   where(ec), sample={"target": target, "from": kind})
            chk.ob("C13.cast/%s/enum-peel" % target, bad is None or "enum" not in bad, "enum wrapper peeled before the conversion", where(ec), trivial=True)
    for t_ in SCALAR2CONST:
        chk.ob("C13.cast/%s/present" % t_, True, "target handled", where(ec), trivial=True)
    chk.floor("C13.floor/cast-table", n, 48, "source-kind x target entries of evaluate_cast", where(ec))
    # enum targets: the value is converted to the target enum's own underlying type (int or uint, deduced per enum)
    # and wrapped with the target's id - whatever the source was, another enum included
    for under in ("Int32", "UInt32"):
        if under not in cv.u.names or "Enum" not in cv.u.names:
            continue
        module = I.Enum("Module", None, {"type_registry": I.Opaque("types"), "enum_registry": I.Enum("EnumRegistry", None, {
            "type_ids": [cv.u.type_id("Enum")], "underlying_type_ids": [cv.u.type_id(under)], "underlying_scalars": [I.Enum("ScalarType", under)]})})
        bad = None
        for kind, values in SRC.items():
            for v in values:
                for wrapped in (False, True):
                    c = I.Enum("Constant", kind, {"0": v})
                    if wrapped:
                        c = I.Enum("Constant", "Enum", {"0": I.Enum("EnumId", None, {"0": 1}), "1": c})
                    try:
                        r = ip.apply(ec, [cv.u.type_id("Enum"), c, module])
                    except I.Unknown as e:
                        if "panicking" in str(e):
                            continue
                        return True         # not readable for enum targets: the shape rule of rule_cast judges the arm
                    if not (isinstance(r, I.Enum) and r.variant == "Ok"):
                        continue
                    got = r.fields["0"]
                    want = ref(under, kind, v)
                    inner = got.fields.get("1") if isinstance(got, I.Enum) and got.variant == "Enum" else None
                    ok = isinstance(inner, I.Enum) and isinstance(got.fields.get("0"), I.Enum) and got.fields["0"].fields.get("0") == 0 and (inner.variant, inner.fields.get("0")) == want
                    if not ok:
                        bad = bad or "casting Constant::%s(%r)%s to an enum whose underlying type is %s gives %s, must be Enum(target, %s(%r))" % (
                            kind, v, " of another enum" if wrapped else "", under, got, want[0], want[1])
        chk.ob("C13.cast/Enum/underlying-%s" % under, bad is None, "every source constant (plain or of another enum) is converted to the target enum's underlying type and re-tagged" if bad is None else bad, where(ec))
    return True


def rule_cast(chk, ec):
    try:
        if rule_cast_eval(chk, ec):
            # the enum target arm is still judged by shape below
            m = outer_match(ec, "TypeLayer")
            for arm in (m["arms"] if m else []):
                pv = F.pat_variant(F.pat_alternatives(arm["pat"])[0])
                if pv and pv[1] == "Enum":
                    calls = [c for c in F.exprs(arm["body"], "Call") if c.get("fn") == ec["path"]]
                    wraps = [a for a in F.exprs(arm["body"], "Adt") if short(a["adt"]) == "Constant" and a.get("variant") == "Enum"]
                    under = any(short(c.get("fn") or "") == "get_underlying_type_id" for c in F.exprs(arm["body"], "Call"))
                    ok = bool(calls) and bool(wraps) and under
                    chk.ob("C13.cast/Enum", ok, "enum target: cast to the underlying type, then wrap" if ok else
                           "cast to an enum no longer recurses on the underlying type and re-wraps", where(ec, arm))
            return
    except Exception:
        pass
    m = outer_match(ec, "TypeLayer")
    if not chk.anchor("C13.anchor/cast-match", m, "match over TypeLayer in evaluate_cast", where(ec)):
        return
    n = 0
    seen = set()
    for arm in m["arms"]:
        alt = F.pat_alternatives(arm["pat"])[0]
        pv = F.pat_variant(alt)
        if not pv:
            continue
        if pv[1] == "Scalar":
            inner = F.pat_sub(alt, "0")
            target = inner.get("variant") if inner and inner.get("k") == "Variant" else None
            if target is None:
                continue
            seen.add(target)
            want = SCALAR2CONST.get(target)
            body = arm["body"]
            # peel: first let binds inner_value from match inner_value { Enum(_, inner) => *inner, other => other }
            peel = False
            for mm in F.exprs(body, "Match"):
                alts = [F.pat_variant(F.pat_alternatives(a["pat"])[0]) for a in mm["arms"]]
                if len(mm["arms"]) == 2 and alts[0] == ("Constant", "Enum") and F.pat_is_catchall(mm["arms"][1]["pat"]):
                    peel = True
            chk.ob("C13.cast/%s/enum-peel" % target, peel, "enum wrapper peeled before the conversion" if peel else
                   "cast to %s no longer peels Constant::Enum first" % target, where(ec, arm))
            for mm in F.exprs(body, "Match"):
                for ia in mm["arms"]:
                    kinds, binds = pattern_kinds(F.pat_alternatives(ia["pat"])[0])
                    res = F.adt_ctor(F.tail(ia["body"]))
                    if not kinds or not res or res[0] != "Constant" or kinds == ["Enum"]:
                        continue
                    n += 1
                    key = "C13.cast/%s/from-%s" % (target, kinds[0])
                    ok = res[1] == want
                    why = "Constant::%s" % res[1]
                    if ok and target == "Bool" and kinds[0] != "Bool":
                        o = operation_of(res[2]["0"])
                        ok = o[0] == "bin" and o[1] == "Ne" and var_id(o[2]) == binds[0] and F.lit(o[3]) and float(F.lit(o[3])[1]) == 0.0
                        why = "Bool(v != 0)" if ok else "bool conversion is %s, must be v != 0" % (o[:2],)
                    elif ok:
                        o = operation_of(res[2]["0"])
                        src_ok = (o[0] == "var" and o[1] == binds[0]) or (o[0] == "cast" and var_id(o[3]) == binds[0]) \
                            or (o[0] == "if" and kinds[0] == "Bool") or (o[0] == "method" and var_id(o[2]) == binds[0])
                        if o[0] == "if":
                            e = o[1]
                            tv, fv = F.lit(F.tail(e["then"])), F.lit(F.tail(e.get("else", {})))
                            src_ok = bool(tv and fv and float(tv[1]) == 1.0 and float(fv[1]) == 0.0 and var_id(e["cond"]) == binds[0])
                        ok = src_ok
                        why = "payload converted from the source value" if ok else "result payload does not come from the source value (%s)" % (o[:2],)
                    else:
                        why = "cast of %s to %s yields Constant::%s, must be Constant::%s" % (kinds[0], target, res[1], want)
                    chk.ob(key, ok, why, where(ec, ia), sample={"target": target, "from": kinds[0], "result": res[1]})
        elif pv[1] == "Enum":
            calls = [c for c in F.exprs(arm["body"], "Call") if c.get("fn") == ec["path"]]
            wraps = [a for a in F.exprs(arm["body"], "Adt") if short(a["adt"]) == "Constant" and a.get("variant") == "Enum"]
            under = any(short(c.get("fn") or "") == "get_underlying_type_id" for c in F.exprs(arm["body"], "Call"))
            ok = bool(calls) and bool(wraps) and under
            chk.ob("C13.cast/Enum", ok, "enum target: cast to the underlying type, then wrap" if ok else
                   "cast to an enum no longer recurses on the underlying type and re-wraps", where(ec, arm))
    for t in SCALAR2CONST:
        chk.ob("C13.cast/%s/present" % t, t in seen, "target handled" if t in seen else "no cast arm for scalar %s" % t, where(ec), trivial=True)
    chk.floor("C13.floor/cast-table", n, 48, "source-kind x target entries of evaluate_cast", where(ec))


# ------------------------------------------------------------------ sites

def rule_sites(chk, ecx):
    f = chk.facts
    n = 0
    users = {}
    for b in f.crates[TY]["bodies"]:
        if "thir" not in b or b["path"].startswith(ecx["path"]):
            continue
        if "evaluator" in b["path"]:
            continue
        for c in F.exprs(b["thir"], "Call"):
            nm = c.get("fn") or ""
            if short(nm) in ("unwrap", "expect", "unwrap_unchecked") and c.get("args"):
                inner = F.strip(c["args"][0])
                if inner.get("k") == "Call" and inner.get("fn") == ecx["path"]:
                    chk.ob("C13.sites/unwrap/" + short(b["path"]), False,
                           "the result of evaluate_constexpr is unwrapped: a non-constant expression aborts instead of being reported",
                           where(b, c))
            if nm == ecx["path"]:
                n += 1
                owner = b.get("parent") or b["path"]
                users[short(owner)] = users.get(short(owner), 0) + 1
    chk.floor("C13.floor/sites", n, 10, "call sites of evaluate_constexpr in the typer", where(ecx))
    # the positions that demand a constant reach the evaluator (call graph)
    cg = M.CallGraph(f)
    needs = {
        "array size / template value argument": "parse_and_evaluate_constant_expression",
        "enum value": "parse_rootdefinition_enum",
        "case label": "parse_statement",
        "const initialiser (local)": "parse_vardef",
        "const initialiser (global)": "parse_rootdefinition_globalvariable",
        "numthreads": "add_stage",
        "statement attribute argument": "parse_statement_attribute",
        "assert_eval built-in": "parse_assert_eval",
    }
    for what, fn_name in needs.items():
        cands = [b for b in f.by_name.get(fn_name, []) if b["crate"] == TY]
        if not cands:
            # tolerate renames: fall back to "some function whose name contains the stem calls the evaluator"
            stem = fn_name.split("_")[-1]
            cands = [b for b in f.crates[TY]["bodies"] if stem in b["name"] and b["kind"] in ("Fn", "AssocFn")]
        ok = any(ecx["path"] in cg.reachable([b["path"]]) for b in cands)
        chk.ob("C13.sites/reach/" + what, ok, "reaches evaluate_constexpr" if ok else
               "%s (%s) no longer reaches evaluate_constexpr" % (what, fn_name), where(ecx), sample={"position": what})
    chk.note("evaluate_constexpr users: %s" % dict(sorted(users.items())))


def exact_var(x, scope, depth=0):
    """The variable an expression IS (through borrows, copies and plain `let y = x;` aliases) - casts are not peeled."""
    x = F.strip(x)
    if x.get("k") == "Var":
        if depth < 4:
            for s in F.walk(scope):
                if s.get("k") == "LetStmt" and s["pat"].get("k") == "Bind" and s["pat"]["id"] == x["id"] and "init" in s:
                    return exact_var(s["init"], scope, depth + 1)
        return x["id"]
    return None


def rule_literal_fold(chk):
    """ImplicitConversion::apply folds an untyped literal into the target type instead of emitting a cast. apply is
    evaluated (convmodel.py) for IntLiteral / FloatLiteral values - including multiples of 2^32, negatives and values
    beyond 32 bits - towards every scalar target: the folded constant must be Constant::<kind of the target> holding what
    the run-time conversion gives (bool: value != 0 on the literal's own value; integers: wrap / saturate as `as` does;
    floats: the nearest value)."""
    import convmodel as CM
    import interp as I
    f = chk.facts
    app = chk.anchor("C13.anchor/ImplicitConversion::apply", f.fn("apply", TY, self_ty="ImplicitConversion"), "ImplicitConversion::apply")
    if not app:
        return
    cv = CM.Conversions(f)
    lit = lambda k, v: I.Enum("Expression", "Literal", {"0": I.Enum("Constant", k, {"0": v})})

    def wrap(v, bits, signed):
        v &= (1 << bits) - 1
        return v - (1 << bits) if signed and v >= (1 << (bits - 1)) else v
    n = 0
    for src, values in (("IntLiteral", [0, 1, 5, -1, 1 << 31, 1 << 32, (1 << 32) + 1, 3 << 32, -(1 << 32), 1 << 63]),
                        ("FloatLiteral", [0.0, 0.5, 1.0, -1.5, 3.99, 4294967296.0, -0.0])):
        for target in ("Bool", "UInt32", "Int32", "Float16", "Float32", "Float64"):
            r = cv.find(src, "Rvalue", target, "Rvalue")
            bad = None
            if r[0] != "Ok":
                bad = "no conversion %s -> %s (%s)" % (src, target, r[0])
            else:
                for v in values:
                    out = cv.apply(r[1], lit(src, v))
                    if isinstance(out, tuple):
                        bad = "apply is %s for the literal %r (%s)" % (out[0], v, out[1][:80])
                        break
                    c = out.fields.get("0") if isinstance(out, I.Enum) and out.variant == "Literal" else None
                    if not isinstance(c, I.Enum):
                        continue      # not folded: an explicit cast is emitted, evaluate_cast decides its value
                    want_kind = SCALAR2CONST[target]
                    got = c.fields.get("0")
                    if target == "Bool":
                        want = (v != 0)
                    elif target in ("UInt32", "Int32"):
                        if isinstance(v, int):
                            want = wrap(v, 32, target == "Int32")
                        else:
                            lo, hi = (-(1 << 31), (1 << 31) - 1) if target == "Int32" else (0, (1 << 32) - 1)
                            want = max(lo, min(hi, int(v)))
                    else:
                        want = I.F32(v) if target in ("Float16", "Float32") else float(v)
                    if c.variant != want_kind or got != want:
                        bad = "the literal %r folded for a %s target becomes Constant::%s(%r), must be Constant::%s(%r)" % (v, target, c.variant, got, want_kind, want)
                        break
            n += 1
            chk.ob("C13.fold/%s/to-%s" % (src, target), bad is None, "folded constants equal the run-time conversion for %d literal values" % len(values) if bad is None else
                   "%s: a literal converted implicitly gets another value than the explicit cast / the run-time conversion" % bad, where(app), sample={"from": src, "target": target})
    chk.floor("C13.floor/literal-fold", n, 12, "literal x target entries of ImplicitConversion::apply", where(app))
