"""C10 — lexing is lossless and numeric literals are exact (structural part)."""
import facts as F
import mirs as M
from facts import short, where

EXPLANATION = (
    "C10.tile — TokenStream::next (THIR shape): the lexer is run on input_bytes[current_offset..]; the token's span is "
    "[current_offset, input.len() - remaining.len()) and current_offset is advanced to exactly that end on the Ok "
    "path, after the token was built; the synthetic end-of-file Endline has an empty span at the current offset; "
    "prepare_tokens keeps the token's own start location; unlex slices [offset, offset+size) with the single "
    "PhysicalEndline exception. C10.int — the three digit accumulators (decimal / hex / octal) contain no arithmetic "
    "that can abort or wrap (MIR abort inventory: no overflow-class Assert, no operator-trait call on integer refs; "
    "checked_mul / checked_add) and report an error on overflow; the suffix -> token-kind tables of "
    "literal_decimal_int / literal_hex_int / literal_octal_int are identical and total, and a suffixed literal is "
    "narrowed only through a checked conversion. C10.exp — float_exponent / calculate_float64_from_parts: no "
    "overflow-class abort on the exponent and every loop bounded by the exponent has a saturation exit. C10.narrow — "
    "f / h suffixes narrow the f64 value with exactly one `as f32`; parser, typer and both exporters copy literal "
    "payloads without arithmetic (the only casts are widenings / the documented sign split). Not decided: that the "
    "f64 computed from the digits is the nearest double (numerical; the repository's algorithm is known to be off by "
    "one ulp for some inputs)."
)
ASSUMPTIONS = ["rustc THIR/MIR is a faithful view of the source", "dev profile overflow checks make unchecked arithmetic visible as Assert terminators"]

PP = "rssl_preprocess"


def run(chk):
    f = chk.facts
    if not rule_tile_eval(chk):
        rule_tile(chk)
    # the literal lexers are read as functions of the spelling; the THIR / MIR shape rules are the fallback
    if not rule_int_eval(chk):
        rule_int(chk)
    if not rule_float_eval(chk):
        rule_float(chk)
    rule_payload(chk)
    rule_positions(chk)
    import c09
    if not c09.rule_lit_roundtrip(chk, prefix="C10.output"):
        chk.unreadable("C10.output/roundtrip/readable", "format_literal / token_intermediate", "see the note", "formatter/src/formatter.rs")

# ---- literal lexers read as functions of the spelling
INT_DIGITS = {
    "dec": ["0", "7", "9", "10", "42", "2147483647", "2147483648", "4294967295", "4294967296", "9223372036854775807", "9223372036854775808",
            "18446744073709551615", "18446744073709551616", "99999999999999999999", "1234567890123456789012345", "100000000000000000000"],
    "hex": ["0x0", "0x7", "0xf", "0xF", "0x10", "0xdeadBEEF", "0x7fffffff", "0x80000000", "0xFFFFFFFF", "0x100000000", "0x7FFFFFFFFFFFFFFF", "0x8000000000000000",
            "0xFFFFFFFFFFFFFFFF", "0x10000000000000000", "0xabcdef0123456789a"],
    "oct": ["00", "07", "010", "0777", "017777777777", "037777777777", "040000000000", "0777777777777777777777", "01777777777777777777777", "02000000000000000000000"],
}
INT_SUFFIX = {"": ("LiteralInt", 0, (1 << 64) - 1), "u": ("LiteralIntUnsigned32", 0, (1 << 32) - 1), "U": ("LiteralIntUnsigned32", 0, (1 << 32) - 1),
              "l": ("LiteralIntSigned64", 0, (1 << 63) - 1), "L": ("LiteralIntSigned64", 0, (1 << 63) - 1),
              "ul": ("LiteralIntUnsigned64", 0, (1 << 64) - 1), "UL": ("LiteralIntUnsigned64", 0, (1 << 64) - 1), "lu": ("LiteralIntUnsigned64", 0, (1 << 64) - 1),
              "Lu": ("LiteralIntUnsigned64", 0, (1 << 64) - 1)}


def _written_int(digits, radix):
    if radix == "hex":
        return int(digits[2:], 16)
    if radix == "oct":
        return int(digits[1:], 8) if len(digits) > 1 else 0
    return int(digits)


def rule_int_eval(chk):
    """literal_int walked by the finite-map reader on integer spellings (three radices x boundary values up to 25 digits x
    every suffix): the token carries exactly the written value with the suffix's kind, or the literal is refused when
    the value does not fit 64 bits / the suffix's type. True when readable."""
    import interp as I
    f = chk.facts
    li = f.fn("literal_int", "rssl_preprocess")
    if not li:
        return False
    ip = I.Interp(f, max_depth=12, extern={})
    ip.max_loop = 128
    n = 0
    for radix, spellings in INT_DIGITS.items():
        bad = None
        for d in spellings:
            for suf, (kind, lo, hi) in INT_SUFFIX.items():
                n += 1
                text = d + suf
                try:
                    r = ip.apply(li, [list(text.encode())])
                except I.Unknown as e:
                    if "panicking" in str(e):
                        bad = bad or "`%s` aborts the lexer (%s)" % (text, str(e)[:60])
                        continue
                    chk.note("C10.lit/int: literal_int is not readable (%s); the shape rules C10.int/* decide" % str(e)[:80])
                    return False
                v = _written_int(d, radix)
                if isinstance(r, I.Enum) and r.variant == "Ok":
                    rest, tok = r.fields["0"]
                    if rest:
                        bad = bad or "`%s`: only `%s` is consumed" % (text, text[:len(text) - len(rest)])
                    elif not (lo <= v <= hi):
                        bad = bad or "`%s` is accepted as %s although %d does not fit the type" % (text, tok, v)
                    elif not (isinstance(tok, I.Enum) and tok.variant == kind and tok.fields.get("0") == v):
                        bad = bad or "`%s` is lexed as %s, it denotes %s(%d)" % (text, tok, kind, v)
                elif isinstance(r, I.Enum) and r.variant == "Err":
                    if lo <= v <= hi:
                        bad = bad or "`%s` (= %d, fits) is refused" % (text, v)
                else:
                    chk.note("C10.lit/int: literal_int result not readable; the shape rules C10.int/* decide")
                    return False
        chk.ob("C10.lit/int/" + radix, bad is None, "%d spellings x %d suffixes: exact value with the suffix's kind, or refused when it does not fit" % (len(spellings), len(INT_SUFFIX))
               if bad is None else bad, where(li), sample={"radix": radix, "spellings": len(spellings) * len(INT_SUFFIX)})
    chk.floor("C10.floor/int-spellings", n, 300, "integer spellings read", where(li))
    return True


FLOAT_MANTISSAS = ["0.0031308", "0.055", "0.1", "0.3", "0.7", "1.1", "2.7", "1.", ".5", "3.14159265358979", "2.718281828459045", "0.30102999566398120", "123456789.125",
                   "9007199254740993.", "0.000001", "6.02214076", "1.7976931348623157", "4.9406564584124654", "2.2250738585072014", "8.98846567431158", "0.12345678901234567890",
                   "65504.", "16777217.", "0.333333343267440796", "100.", "7.", "5.5"]
FLOAT_EXTREME = ["1e-9223372036854775808", "1e9223372036854775807", "1e9223372036854775808", "1.5e-18446744073709551615", "0.0e18446744073709551615", "7e4000", "7e-4000"]
FLOAT_EXPONENTS = [None, "e0", "e1", "e-1", "e5", "E-7", "e+11", "e22", "e23", "e25", "e-25", "e38", "e-45", "e100", "e-100", "e300", "e308", "e-308", "e-324", "e310", "e-330"]
FLOAT_SUFFIX = {"": ("LiteralFloat", False), "f": ("LiteralFloat32", True), "F": ("LiteralFloat32", True), "h": ("LiteralFloat16", True), "H": ("LiteralFloat16", True),
                "l": ("LiteralFloat64", False), "L": ("LiteralFloat64", False)}


def rule_float_eval(chk):
    """literal_float walked by the finite-map reader (IEEE double arithmetic is the same in the reader as in rustc's
    target) on decimal spellings: the token is the double nearest to the decimal text, narrowed once to single
    precision for f / h. True when readable."""
    import interp as I
    import struct
    import math
    f = chk.facts
    lf = f.fn("literal_float", "rssl_preprocess")
    if not lf:
        return False
    ip = I.Interp(f, max_depth=12, extern={})
    ip.max_loop = 1024
    n = 0
    bad = {}
    for m in FLOAT_MANTISSAS:
        for ex in FLOAT_EXPONENTS:
            for suf, (kind, narrow) in FLOAT_SUFFIX.items():
                if ex is None and suf and m in ("7.",):
                    pass
                text = m + (ex or "") + suf
                n += 1
                try:
                    r = ip.apply(lf, [list(text.encode())])
                except I.Unknown as e:
                    if "panicking" in str(e):
                        bad.setdefault("abort", "`%s` aborts the lexer (%s)" % (text, str(e)[:60]))
                        continue
                    chk.note("C10.lit/float: literal_float is not readable (%s); the shape rules C10.exp/* / C10.narrow/* decide" % str(e)[:80])
                    return False
                if not (isinstance(r, I.Enum) and r.variant == "Ok"):
                    bad.setdefault("refused", "`%s` is refused" % text)
                    continue
                rest, tok = r.fields["0"]
                want = float(m + (ex or ""))
                if narrow:
                    try:
                        want = struct.unpack("f", struct.pack("f", want))[0]
                    except OverflowError:
                        want = math.copysign(float("inf"), want)
                got = tok.fields.get("0") if isinstance(tok, I.Enum) else None
                got = getattr(got, "v", got)
                if rest or not isinstance(tok, I.Enum) or tok.variant != kind:
                    bad.setdefault("kind", "`%s` is lexed as %s (rest %r), it is a %s" % (text, tok, bytes(rest), kind))
                elif not (isinstance(got, float) and (got == want or (got != got and want != want))):
                    key = "nearest" if not narrow else "narrowed"
                    bad.setdefault(key, "`%s` is lexed as %r, the %s is %r" % (text, got, "nearest double" if not narrow else "nearest double narrowed once to single precision", want))
    # exponents at and beyond the i64 / u64 limits: the value saturates (python's float() does the same), nothing aborts or loops
    for text in FLOAT_EXTREME:
        n += 1
        try:
            r = ip.apply(lf, [list(text.encode())])
        except I.Unknown as e:
            if "panicking" in str(e):
                bad.setdefault("abort", "`%s` aborts the lexer (%s)" % (text, str(e)[:60]))
                continue
            if "loop too long" in str(e):
                bad.setdefault("abort", "`%s`: the lexer iterates once per unit of the exponent" % text)
                continue
            chk.note("C10.lit/float: literal_float is not readable (%s); the shape rules C10.exp/* / C10.narrow/* decide" % str(e)[:80])
            return False
        if isinstance(r, I.Enum) and r.variant == "Ok":
            got = r.fields["0"][1].fields.get("0")
            if got != float(text):
                bad.setdefault("nearest", "`%s` is lexed as %r, the nearest double is %r" % (text, got, float(text)))
        else:
            bad.setdefault("refused", "`%s` is refused" % text)
    for key, txt in (("nearest", "the token is the double nearest to the decimal text"), ("narrowed", "f / h literals are that double narrowed once to single precision"),
                     ("kind", "the suffix selects the token kind and the whole spelling is consumed"), ("refused", "no spelling of the table is refused"),
                     ("abort", "no spelling aborts the lexer")):
        chk.ob("C10.lit/float/" + key, key not in bad, "%d spellings: %s" % (n, txt) if key not in bad else bad[key], where(lf), sample={"spellings": n})
    chk.floor("C10.floor/float-spellings", n, 3000, "float spellings read", where(lf))
    return True



def rule_positions(chk):
    """'Every diagnostic position lies inside the file': the location decoders of SourceManager (C14.line rules) are
    re-evaluated under this property - first line/column, per-byte advance, prefix scanned, file_size + 1 reservation
    and the strict file-range test shared by both decoders."""
    import c04
    import c14
    import interp as I

    class Px(c04.Proxy):
        def _k(self, key):
            for a, b in self.mapping:
                if key.startswith(a):
                    return b + key[len(a):]
            return "C10.position/" + key

        def ob(self, key, ok, why="", where=None, trivial=False, sample=None):
            if key.startswith("C14.diag"):
                return ok
            return c04.Proxy.ob(self, key, ok, why, where, trivial, sample)
    c14.rule_line(Px(chk, [("C14.line", "C10.position"), ("C14.anchor", "C10.anchor/c14")]), I.Interp(chk.facts))


TILE_TEXTS = [
    "int a = 1;\n", "x+=0x1Fu /*c*/ // l\n#if A\n", "float4 v=f(1.5e3f,\"s\");", "a\\\nb", "", "\n", "  \t x", "a<<=b>>c<=d>=e==f!=g&&h||i++ +--j;\n",
    "#define F(x) x##y\n#include \"f.h\"\n", "/* open\n * block */ident_9 0777 1.0h 2.5L .5f 1e-3 0u 7ul\n", "s.Load(int3(0,0,0)).xyzw;[numthreads(8,8,1)]\r\nvoid f(){}\r\n",
    "a ? b : c; ~x % y ^ z | w & !q; ::ns::t<u>(1)\n",
]


def rule_tile_eval(chk):
    """The lexer and the unlexer read as functions of the text: TokenStream::read_to_end is walked by the reader on model
    texts that use every class of token (words, every operator spelling, literals of every kind, comments, line splices,
    CR LF, directives, text without a final newline, the empty text), placed at base location 0 and at a later base.
    The spans must tile the text - each token starts where the previous one ended, the first at the base, the last ends
    at the end of the text - and unlex of the tokens must give the text back (a line splice loses its backslash, a
    missing final newline is added). Texts the lexer refuses must be refused at a position inside the text."""
    import interp as I
    f = chk.facts
    tsnew = f.fn("new", PP, self_ty="TokenStream")
    rte = f.fn("read_to_end", PP, self_ty="TokenStream")
    smnew = f.fn("new", "rssl_text", self_ty="SourceManager")
    add = f.fn("add_file", "rssl_text")
    unlex = f.fn("unlex", PP)
    if not (tsnew and rte and smnew and add and unlex):
        return False
    ip = I.Interp(f, max_depth=30)
    ip.max_loop = 8192
    bad_tile = bad_unlex = bad_err = None
    n = 0
    for text in TILE_TEXTS:
        for pre in ("", "first file\n"):
            what = "%r%s" % (text, " (second file of the source manager)" if pre else "")
            try:
                sm = ip.apply(smnew, [])
                base = 0
                if pre:
                    ip.apply(add, [sm, I.Enum("FileName", None, {"0": "first"}), pre])
                    base = len(pre) + 1
                ip.apply(add, [sm, I.Enum("FileName", None, {"0": "t"}), text])
                ts = ip.apply(tsnew, [text, I.Enum("SourceLocation", None, {"0": base})])
                r = ip.apply(rte, [ts])
            except I.Unknown as e:
                if "panicking" in str(e) or "abort" in str(e):
                    bad_tile = bad_tile or "lexing %s aborts (%s)" % (what, str(e)[:80])
                    continue
                if "as_ptr_range" in str(e):
                    continue        # (the error path compares slice addresses, which the reader does not model: C08.lexer looks at it)
                chk.note("C10.tile: the lexer is not readable on %s (%s); the shape rules decide" % (what, str(e)[:80]))
                return False
            n += 1
            if not (isinstance(r, I.Enum) and r.variant == "Ok"):
                e0 = r.fields.get("0") if isinstance(r, I.Enum) else None
                locv = e0.fields.get("location") if isinstance(e0, I.Enum) else None
                lv = locv.fields.get("0") if isinstance(locv, I.Enum) else None
                if not (isinstance(lv, int) and base <= lv <= base + len(text.encode())):
                    bad_err = bad_err or "lexing %s fails at location %r, which is not inside the text [%d, %d]" % (what, lv, base, base + len(text.encode()))
                continue
            toks = r.fields["0"]
            spans = []
            for t in toks:
                d = t.fields["1"].fields
                spans.append((t.fields["0"].variant, d["start_location"].fields["0"] - base, d["end_location"].fields["0"] - base))
            size = len(text.encode())
            pos = 0
            for k, (kind, a, b) in enumerate(spans):
                if a != pos or b < a:
                    bad_tile = bad_tile or "lexing %s: token %d (%s) spans [%d, %d) but the previous token ended at %d: the tokens overlap or leave a gap" % (what, k, kind, a, b, pos)
                    break
                pos = b
            else:
                if pos != size:
                    bad_tile = bad_tile or "lexing %s: the tokens end at byte %d of %d" % (what, pos, size)
            try:
                u = ip.apply(unlex, [toks, sm])
            except I.Unknown as e:
                if "panicking" in str(e) or "abort" in str(e):
                    bad_unlex = bad_unlex or "unlex of the tokens of %s aborts (%s)" % (what, str(e)[:80])
                    continue
                chk.note("C10.tile: unlex is not readable on %s (%s); the shape rules decide" % (what, str(e)[:80]))
                return False
            want = text.replace("\\\r\n", "\r\n").replace("\\\n", "\n")
            if spans and spans[-1][0] == "Endline" and spans[-1][1] == spans[-1][2]:
                want += "\n"
            if u != want:
                bad_unlex = bad_unlex or "unlex of the tokens of %s gives %r, must be %r" % (what, u, want)
    chk.ob("C10.tile/spans", bad_tile is None, bad_tile or "the token spans tile every model text", where(rte), sample={"texts": len(TILE_TEXTS)})
    chk.ob("C10.tile/unlex", bad_unlex is None, bad_unlex or "unlex gives every model text back", where(unlex), sample={"texts": len(TILE_TEXTS)})
    chk.ob("C10.tile/error-position", bad_err is None, bad_err or "lexer errors are located inside the text", where(rte))
    chk.floor("C10.floor/texts-lexed", n, 20, "model texts lexed", where(rte))
    return True


def rule_tile(chk):
    f = chk.facts
    nx = chk.anchor("C10.anchor/TokenStream::next", f.fn("next", PP, self_ty="TokenStream"), "TokenStream::next")
    if not nx:
        return
    t = nx["thir"]
    # (a) lexer input = input_bytes[current_offset..]
    ti = [c for c in F.exprs(t, "Call") if short(c.get("fn") or "") == "token_intermediate"]
    ok_a = False
    if len(ti) == 1:
        a0 = F.strip(F.inline_lets(t, ti[0]["args"][0]))
        idx = a0 if a0.get("k") == "Index" else None
        if idx is None and a0.get("k") == "Call" and short(a0.get("fn") or "") == "index":
            idx = {"e": a0["args"][0], "i": a0["args"][1]}
        if idx:
            base = [x["name"] for x in F.exprs(idx["e"], "Field")]
            rng = F.adt_ctor(idx["i"])
            start = [x["name"] for x in F.exprs(idx["i"], "Field")]
            ok_a = "input_bytes" in base and rng is not None and rng[0] == "RangeFrom" and start == ["current_offset"]
    chk.ob("C10.tile/lex-from-current-offset", ok_a, "lexes input_bytes[current_offset..]" if ok_a else
           "the lexer is no longer started exactly at current_offset", where(nx))
    # (b)(c)(d) Ok arm
    ok_span = ok_adv = ok_end = False
    for m in F.exprs(t, "Match"):
        sc = F.strip(m["scrut"])
        if not (sc.get("k") == "Call" and short(sc.get("fn") or "") == "token_intermediate"):
            continue
        for arm in m["arms"]:
            if F.pat_variant(arm["pat"]) != ("Result", "Ok"):
                continue
            binds = {n: i for i, n, pth in F.pat_binds(arm["pat"])}
            bpath = {i: pth for i, n, pth in F.pat_binds(arm["pat"])}
            rem = [i for i, pth in bpath.items() if pth == ("0", "0")]
            body = arm["body"]
            end_var = None
            for s in F.walk(body):
                if s.get("k") == "LetStmt" and s["pat"].get("k") == "Bind" and "init" in s:
                    e = F.strip(s["init"])
                    if e.get("k") == "Binary" and e["op"] == "Sub":
                        l, r = F.strip(e["l"]), F.strip(e["r"])
                        l_ok = l.get("k") == "Call" and short(l.get("fn") or "") == "len" and any(x["name"] == "input_bytes" for x in F.exprs(l, "Field"))
                        rv = F.leftmost_var(r)
                        r_ok = r.get("k") == "Call" and short(r.get("fn") or "") == "len" and rv is not None and rem and rv["id"] == rem[0]
                        if l_ok and r_ok:
                            end_var = s["pat"]["id"]
                            ok_end = True
            is_new = lambda c: short(c.get("fn") or "") == "new" and "PreprocessToken" in (c.get("fn") or "")
            news = [(a_, n_) for a_, n_ in F.calls_through_wrappers(f, dict(nx, thir=body), is_new)]
            if news and end_var is not None:
                a = news[0][0]
                st = [x["name"] for x in F.exprs(a[2], "Field")]
                ev = F.leftmost_var(a[3])
                ok_span = st == ["current_offset"] and ev is not None and ev["id"] == end_var \
                    and not any(True for _ in F.exprs(a[2], "Binary")) and not any(True for _ in F.exprs(a[3], "Binary"))
                asg = [x for x in F.exprs(body, "Assign") if F.strip(x["l"]).get("k") == "Field" and F.strip(x["l"])["name"] == "current_offset"]
                if len(asg) == 1:
                    rv = F.leftmost_var(asg[0]["r"])
                    ok_adv = rv is not None and rv["id"] == end_var and F.strip(asg[0]["r"]).get("k") == "Var" \
                        and ((asg[0].get("ln") or 0) >= (news[0][1].get("ln") or 0) or news[0][1].get("ln") is None or not any(news[0][1] is x for x in F.walk(body)))
    chk.ob("C10.tile/end-from-remaining", ok_end, "token end = input.len() - remaining.len()" if ok_end else
           "the token end is no longer `input_bytes.len() - remaining.len()`", where(nx))
    chk.ob("C10.tile/span", ok_span, "span = [current_offset, end) without arithmetic" if ok_span else
           "the token span is no longer [current_offset, end)", where(nx))
    chk.ob("C10.tile/advance", ok_adv, "current_offset = end, after the token was built" if ok_adv else
           "current_offset is not advanced to exactly the token end after building the token (tokens would overlap or leave gaps)", where(nx))
    # (e) synthetic endline
    ok_e = False
    for args_, c in F.calls_through_wrappers(f, nx, lambda c: short(c.get("fn") or "") == "new" and "PreprocessToken" in (c.get("fn") or "")):
            tk = F.adt_ctor(args_[0])
            if tk and tk[1] == "Endline":
                s1 = [x["name"] for x in F.exprs(args_[2], "Field")]
                s2 = [x["name"] for x in F.exprs(args_[3], "Field")]
                ok_e = s1 == ["current_offset"] and s2 == ["current_offset"]
    chk.ob("C10.tile/eof-endline", ok_e, "synthetic end-of-file Endline has the empty span [offset, offset)" if ok_e else
           "the synthetic end-of-file Endline no longer has an empty span at the current offset", where(nx))
    # prepare_tokens keeps the start location
    pt = f.fn("prepare_tokens", PP)
    if chk.anchor("C10.anchor/prepare_tokens", pt, "prepare_tokens"):
        ok = False
        for cb in f.closures_of(pt["path"]):
            for a in F.exprs(cb["thir"], "Adt"):
                if short(a["adt"]) == "LexToken":
                    fl = {x["f"]: x["e"] for x in a["fields"]}
                    v = F.leftmost_var(fl.get("1", {}))
                    if v is not None:
                        for s in F.walk(cb["thir"]):
                            if s.get("k") == "LetStmt" and s["pat"].get("k") == "Bind" and s["pat"]["id"] == v["id"]:
                                init = F.strip(s["init"])
                                ok = init.get("k") == "Call" and short(init.get("fn") or "") == "get_location"
        chk.ob("C10.tile/lextoken-location", ok, "LexToken location = the token's own start location" if ok else
               "prepare_tokens no longer copies the token's start location", where(pt))
    ul = f.fn("unlex", PP)
    if chk.anchor("C10.anchor/unlex", ul, "unlex"):
        ranges = [a for a in F.exprs(ul["thir"], "Adt") if short(a["adt"]) in ("RangeTo", "Range", "RangeFrom")]
        kinds = sorted(short(a["adt"]) for a in ranges)
        phys = any(p.get("variant") == "PhysicalEndline" for p in F.walk(ul["thir"]) if p.get("k") in ("Adt", "Variant"))
        ok = kinds.count("RangeTo") >= 1 and phys
        chk.ob("C10.tile/unlex-slices-span", ok, "unlex emits contents[offset..][..size] (PhysicalEndline drops the backslash)" if ok else
               "unlex no longer slices the original bytes by [offset, offset+size)", where(ul))


def rule_int(chk):
    f = chk.facts
    for name in ("digits", "digits_hex", "digits_octal"):
        fn = chk.anchor("C10.anchor/" + name, f.fn(name, PP), name)
        if not fn:
            continue
        cfg = M.Cfg(fn)
        ab = M.abort_sites(cfg)
        chk.ob("C10.int/%s/no-abort" % name, not ab, "no arithmetic that aborts on overflow" if not ab else
               "digit accumulation can abort on overflow: %s (a literal with too many digits panics the lexer)" % [k for _, k, _, _ in ab],
               where(fn, ab[0][2] if ab else None), sample={"fn": name, "aborts": [k for _, k, _, _ in ab]})
        calls = {short(c.get("fn") or "") for c in F.exprs(fn["thir"], "Call")} | \
            {short(c.get("fn") or "") for cb in f.closures_of(fn["path"]) for c in F.exprs(cb["thir"], "Call")}
        checked = {"checked_mul", "checked_add"} <= calls
        wrapping = any(c.startswith(("wrapping_", "saturating_")) for c in calls)
        chk.ob("C10.int/%s/checked" % name, checked and not wrapping, "accumulates with checked_mul / checked_add" if checked and not wrapping else
               "digit accumulation uses %s: the value silently wraps or saturates instead of being rejected" % sorted(c for c in calls if "_" in c and c.split("_")[0] in ("wrapping", "saturating", "checked", "overflowing")),
               where(fn))
        errs = [a for a in F.exprs(fn["thir"], "Adt") if short(a["adt"]) == "LexErrorContext"]
        chk.ob("C10.int/%s/rejects" % name, bool(errs), "overflow is reported as a lexer error" if errs else "no lexer error is produced on overflow", where(fn))
    # base of each accumulator
    for name, base in (("digits", 10), ("digits_hex", 16), ("digits_octal", 8)):
        fn = f.fn(name, PP)
        if fn:
            lits = {F.lit(c["args"][1]) for c in F.exprs(fn["thir"], "Call") if short(c.get("fn") or "") in ("checked_mul", "wrapping_mul") and len(c["args"]) > 1}
            lits |= {F.lit(b["r"]) for b in F.exprs(fn["thir"], "Binary") if b["op"] == "Mul"}
            lits |= {F.lit(a["r"]) for a in F.exprs(fn["thir"], "AssignOp") if a["op"] in ("Mul", "MulAssign")}
            ok = lits == {("int", base)}
            chk.ob("C10.int/%s/base" % name, ok, "radix %d" % base if ok else "accumulator multiplies by %s, must be %d" % (lits, base), where(fn))
    # suffix -> token tables identical across the three literal parsers
    tabs = {}
    for name in ("literal_decimal_int", "literal_hex_int", "literal_octal_int"):
        fn = chk.anchor("C10.anchor/" + name, f.fn(name, PP), name)
        if not fn:
            continue
        tab = {}
        narrow = {}
        for m in F.exprs_deep(f, fn, "Match", depth=1):
            for arm in m["arms"]:
                alt = F.pat_alternatives(arm["pat"])[0]
                pv = F.pat_variant(alt)
                if not pv or pv[0] != "Option":
                    continue
                key = None
                if pv[1] == "None":
                    key = "none"
                else:
                    q = F.pat_sub(alt, "0")
                    if q and F.pat_variant(q):
                        key = F.pat_variant(q)[1]
                toks = [a for a in F.exprs(arm["body"], "Adt") if short(a["adt"]) == "Token"]
                if key and toks:
                    tab[key] = toks[0]["variant"]
                    casts = [c for c in F.exprs(arm["body"], "Cast")]
                    tf = [c for c in F.exprs(arm["body"], "Call") if short(c.get("fn") or "") == "try_from"]
                    narrow[key] = ("cast" if casts and not tf else ("try_from" if tf else "copy"))
        tabs[name] = (tab, narrow, fn)
    REF = {"none": "LiteralInt", "Unsigned32": "LiteralIntUnsigned32", "Unsigned64": "LiteralIntUnsigned64", "Signed64": "LiteralIntSigned64"}
    for name, (tab, narrow, fn) in tabs.items():
        for k, v in REF.items():
            chk.ob("C10.int/%s/suffix-%s" % (name, k), tab.get(k) == v, "%s -> Token::%s" % (k, tab.get(k)) if tab.get(k) == v else
                   "%s maps suffix kind %s to Token::%s, must be %s" % (name, k, tab.get(k), v), where(fn), sample={"fn": name, "suffix": k, "token": tab.get(k)})
        for k in ("Unsigned32", "Signed64"):
            ok = narrow.get(k) == "try_from"
            chk.ob("C10.int/%s/range-%s" % (name, k), ok, "value is range-checked for the suffix type" if ok else
                   "a literal with suffix kind %s is narrowed with a plain `as` cast (%s): out-of-range literals change value silently" % (k, narrow.get(k)), where(fn))
    it = f.fn("int_type", PP)
    if it:
        # case-insensitive u / l / ul / lu
        import c09
        # reuse the suffix extractor shape: arms of a slice match
        tab = {}
        for m in F.exprs(it["thir"], "Match"):
            for arm in m["arms"]:
                ks = [a["variant"] for a in F.exprs(arm["body"], "Adt") if short(a["adt"]) == "IntType"]
                if len(ks) != 1:
                    continue
                for alt in F.pat_alternatives(arm["pat"]):
                    if alt.get("k") == "Slice":
                        seqs = [""]
                        for q in alt["prefix"]:
                            chars = [chr(x["v"]) for x in F.pat_alternatives(q) if x.get("k") == "Const"]
                            seqs = [s + c for s in seqs for c in chars]
                        for s_ in seqs:
                            tab.setdefault(s_, ks[0])
        want = {}
        for u in "uU":
            want[u] = "Unsigned32"
            for l in "lL":
                want[u + l] = "Unsigned64"
                want[l + u] = "Unsigned64"
        for l in "lL":
            want[l] = "Signed64"
        for k, v in sorted(want.items()):
            chk.ob("C10.int/suffix-spelling/%s" % k, tab.get(k) == v, "%r -> %s" % (k, v) if tab.get(k) == v else
                   "integer suffix %r is read as %s, must be %s" % (k, tab.get(k), v), where(it))


def rule_float(chk):
    f = chk.facts
    fe = chk.anchor("C10.anchor/float_exponent", f.fn("float_exponent", PP), "float_exponent")
    cf = chk.anchor("C10.anchor/calculate_float64_from_parts", f.fn("calculate_float64_from_parts", PP), "calculate_float64_from_parts")
    if fe:
        cfe = M.Cfg(fe)
        ab = []
        for site in M.abort_sites(cfe):
            if site[1] == "OverflowNeg" and site[3]:
                p = M.op_place(site[3][0])
                if p is not None and isinstance(p, int) and M.known_nonnegative(cfe, p):
                    continue     # operand is i64::try_from(u64).unwrap_or(MAX): in [0, i64::MAX], negation cannot overflow
            ab.append(site)
        chk.ob("C10.exp/no-abort", not ab, "exponent handling cannot abort" if not ab else
               "float_exponent can abort: %s (e.g. 1e-9223372036854775808)" % [k for _, k, _, _ in ab], where(fe, ab[0][2] if ab else None))
        casts = [c for c in F.exprs(fe["thir"], "Cast") if c.get("ty") == "i64" and c.get("from") == "u64"]
        chk.ob("C10.exp/no-wrapping-cast", not casts, "u64 exponent converted with a checked / saturating conversion" if not casts else
               "the exponent is converted with `as i64`, which wraps for exponents above i64::MAX", where(fe))
    if cf:
        loops = F.for_loops(cf["thir"])
        n = 0
        for (p, it, body, node) in loops:
            its = F.strip(it)
            rng = F.adt_ctor(its)
            if not rng or rng[0] != "Range":
                continue
            hi = rng[2].get("end")
            v = F.leftmost_var(hi) if hi else None
            params = {pp["pat"]["id"]: pp["pat"]["name"] for pp in cf["params"] if pp.get("pat", {}).get("k") == "Bind"}
            if v is None or v["id"] not in params or params[v["id"]] != "exponent" and "i64" not in hi.get("ty", ""):
                continue
            if "i64" not in F.strip(hi).get("ty", "") and "i64" not in hi.get("ty", ""):
                continue
            n += 1
            has_exit = body is not None and any(x.get("k") == "Break" for x in F.walk(body)) and \
                any(short(c.get("fn") or "") in ("is_infinite", "is_finite") for c in F.exprs(body, "Call"))
            chk.ob("C10.exp/bounded-loop", has_exit, "exponent loop exits once the value saturated" if has_exit else
                   "a loop runs |exponent| times with no saturation exit: an exponent like 1e999999999999 makes lexing take time "
                   "unrelated to the input size", where(cf, node))
        ranged = [1 for (p_, it_, b_, n_) in loops if (F.adt_ctor(F.strip(it_)) or (None,))[0] == "Range"]
        uses_exponent = any(x.get("k") == "Var" and x.get("name") == "exponent" for x in F.walk(cf["thir"]))
        if ranged:
            chk.floor("C10.floor/exponent-loops", n, 2, "loops bounded by the exponent", where(cf))
        else:
            chk.ob("C10.exp/bounded-loop", True, "calculate_float64_from_parts has no loop (the exponent is not iterated over)", where(cf), trivial=True)
    lf = chk.anchor("C10.anchor/literal_float", f.fn("literal_float", PP), "literal_float")
    if lf:
        tab = {}
        for m in F.exprs_deep(f, lf, "Match", depth=1):
            for arm in m["arms"]:
                alt = F.pat_alternatives(arm["pat"])[0]
                pv = F.pat_variant(alt)
                toks = [a for a in F.exprs(arm["body"], "Adt") if short(a["adt"]) == "Token" and a["variant"].startswith("LiteralFloat")]
                if not pv or pv[0] != "Option" or not toks:
                    continue
                key = "none" if pv[1] == "None" else (F.pat_variant(F.pat_sub(alt, "0")) or (0, "?"))[1]
                casts = [c for c in F.exprs(toks[0], "Cast")]
                tab[key] = (toks[0]["variant"], [(c.get("from"), c.get("ty")) for c in casts])
        REF = {"none": ("LiteralFloat", []), "Half": ("LiteralFloat16", [("f64", "f32")]), "Float": ("LiteralFloat32", [("f64", "f32")]), "Double": ("LiteralFloat64", [])}
        for k, v in REF.items():
            chk.ob("C10.narrow/float-%s" % k, tab.get(k) == v, "%s -> %s %s" % (k, v[0], "narrowed once to f32" if v[1] else "kept as f64") if tab.get(k) == v else
                   "float suffix kind %s produces %s, must be %s" % (k, tab.get(k), v), where(lf), sample={"suffix": k, "token": str(tab.get(k))})


def payload_eval(chk, crate, name, fn):
    """generate_literal / parse_literal read as tables (litmodel): the number that comes out is the number that went in, for
    every kind and for payloads at both ends of the range. True when readable."""
    import litmodel as L
    f = chk.facts
    t = crate.replace("rssl_", "")
    if name == "generate_literal":
        tab = L.generate_table(f, crate)
        if isinstance(tab, str):
            chk.note("C10.payload: %s; the shape rule decides" % tab)
            return False
        n = 0
        for k, rows in sorted(tab.items()):
            bad = None
            for v, o in rows:
                if o[0] == "lit" and L.denotes(o) != v:
                    bad = bad or "Constant::%s(%r) is written as %sLiteral::%s(%r): the payload is not carried over unchanged" % (k, v, "-" if o[3] else "", o[1], o[2])
                elif o[0] == "aborts":
                    bad = bad or "Constant::%s(%r) aborts the exporter (%s)" % (k, v, o[1])
            n += 1
            chk.ob("C10.payload/%s/%s/%s" % (t, name, k), bad is None, bad or "Constant::%s: the payload is carried over unchanged (%d payloads)" % (k, len(rows)), where(fn), sample={"from": k})
        chk.floor("C10.floor/%s/%s" % (crate, name), n, 8, "literal kinds handled by %s" % name, where(fn))
        return True
    if name == "parse_literal":
        n = 0
        res = {}
        for lk, ps in L.LITERALS.items():
            bad = None
            for p_ in ps:
                c = L.parse(f, fn, lk, p_)
                if c[0] == "unreadable":
                    chk.note("C10.payload: parse_literal is not readable on Literal::%s (%s); the shape rule decides" % (lk, c[1]))
                    return False
                if c[0] == "const" and (c[2] != p_ or isinstance(c[2], bool) != isinstance(p_, bool)):
                    bad = bad or "the source literal %s(%r) is typed as Constant::%s(%r): the payload is not carried over unchanged" % (lk, p_, c[1], c[2])
                elif c[0] == "aborts":
                    bad = bad or "the source literal %s(%r) aborts the typer (%s)" % (lk, p_, c[1])
            res[lk] = bad
            n += 1
        for lk, bad in res.items():
            chk.ob("C10.payload/%s/%s/%s" % (t, name, lk), bad is None, bad or "Literal::%s: the payload is carried over unchanged" % lk, where(fn), sample={"from": lk})
        chk.floor("C10.floor/%s/%s" % (crate, name), n, 8, "literal kinds handled by %s" % name, where(fn))
        return True
    return False


def rule_payload(chk):
    """Literal payloads are copied, not recomputed: parser, typer, exporters."""
    f = chk.facts
    sites = [("rssl_parser", "expr_literal", "Token", "Literal"), ("rssl_typer", "parse_literal", "Literal", "Constant"),
             ("rssl_hlsl", "generate_literal", "Constant", "Literal"), ("rssl_msl", "generate_literal", "Constant", "Literal")]
    ALLOWED_CASTS = {("u64", "i128"), ("u64", "u32"), ("i32", "u64"), ("i128", "u64"), ("u32", "u64"), ("u128", "u64")}
    for crate, name, src, dst in sites:
        fn = chk.anchor("C10.anchor/%s::%s" % (crate, name), f.fn(name, crate), name)
        if not fn:
            continue
        if payload_eval(chk, crate, name, fn):
            continue        # (read as a table; the shape rule below is the fallback)
        ms = F.find_matches(fn, src)
        if not ms:
            chk.ob("C10.payload/%s/%s" % (crate, name), False, "anchor-missing: match over %s" % src, where(fn))
            continue
        m = max(ms, key=lambda x: len(x["arms"]))
        n = 0
        for arm in m["arms"]:
            alt = F.pat_alternatives(arm["pat"])[0]
            pv = F.pat_variant(alt)
            if not pv:
                continue
            binds = [i for i, nme, pth in F.pat_binds(alt)]
            outs = [a for a in F.exprs(arm["body"], "Adt") if short(a["adt"]) == dst and a["fields"]]
            if not outs or not binds:
                continue
            out = outs[-1] if name == "generate_literal" else outs[0]
            pay = out["fields"][0]["e"]
            v = F.leftmost_var(pay)
            ar = [b["op"] for b in F.exprs(pay, "Binary")] + [u["op"] for u in F.exprs(pay, "Unary") if u["op"] == "Neg"]
            casts = {(c.get("from"), c.get("ty")) for c in F.exprs(pay, "Cast")}
            from_bind = v is not None and v["id"] in binds
            ok = from_bind and not ar and casts <= ALLOWED_CASTS
            n += 1
            chk.ob("C10.payload/%s/%s/%s" % (crate.replace("rssl_", ""), name, pv[1]), ok,
                   "%s::%s payload -> %s::%s copied%s" % (src, pv[1], dst, out.get("variant"), " (cast %s)" % sorted(casts) if casts else "") if ok else
                   "the payload of %s::%s is not copied unchanged into %s::%s (arithmetic %s, casts %s)" % (src, pv[1], dst, out.get("variant"), ar, sorted(casts)),
                   where(fn, arm), sample={"from": pv[1], "to": out.get("variant"), "casts": sorted(casts)})
        chk.floor("C10.floor/%s/%s" % (crate, name), n, 8, "literal kinds handled by %s" % name, where(fn))
