"""C01 — HLSL export preserves the meaning of every accepted program (structural necessary conditions).
The same rule functions are reused by C02 for the MSL exporter."""
import facts as F
import interp as I
import thirflow as TF
from facts import short, where

EXPLANATION = (
    "Bit-identical results for all programs and argument values need evaluators of two languages and are NOT decided. "
    "Decided are the structural necessary conditions carried by the anchored mechanisms ('IR nodes map 1:1 to syntax', "
    "'literals keep values'): C01.op — the typer's operator tables (ast::BinOp / UnaryOp -> ir::IntrinsicOp) composed "
    "with the exporter's generate_intrinsic_op table (IntrinsicOp -> ast operator) are the identity on all 37 "
    "operators; only the five internal operators are unmapped. C01.shape — for every arm of generate_expression, "
    "generate_statement, generate_for_init, generate_initializer_inner and generate_intrinsic_op, each child position "
    "i of the syntax node built is derived (THIR value-origin slice through the generate_* transformers) from child i "
    "of the IR node matched, never from another child: dropped, duplicated or swapped operands are reported. "
    "C01.lit — ir::Constant -> ast::Literal kind table composed with the typer's ast::Literal -> ir::Constant table "
    "is the identity on literal kinds (payload copies are C10.payload). C01.intrinsic — for every entry of "
    "ir::intrinsic_data the name the exporter emits for that Intrinsic equals the declared function_name (RSSL mirrors "
    "HLSL names). C01.swz — swizzle letters: typer char -> slot composed with exporter slot -> char is the identity. "
    "C01.conv — implicit conversions are explicit: ImplicitConversion::apply returns either the unchanged expression "
    "(no cast needed) or an ir::Expression::Cast / converted literal (shared with C03.through)."
)
ASSUMPTIONS = ["rustc THIR/MIR is a faithful view of the source"]

VIA = {"generate_expression": 0, "generate_scope_block": 0, "generate_for_init": 0, "generate_literal": 0, "generate_type_id": 0,
       "generate_type": 0, "generate_variable_definition": 0, "generate_initializer": 0, "generate_initializer_inner": 0,
       "generate_invocation_args": 0}
DRILL = [(), (("f", "node"),), (("f", "kind"), ("v", "StatementKind", "Block", "0")), (("v", "Option", "Some", "0"), ("f", "node")),
         (("v", "Option", "Some", "0"),), (("elem",),), (("elem",), ("f", "node"))]
RENAMED = {"StructMember": "Member", "ObjectMember": "Member", "Swizzle": "Member", "MatrixSwizzle": "Member"}
INTERNAL_OPS = {"MakeSigned", "MakeSignedPushZero", "MeshOutputSetVertex", "MeshOutputSetPrimitive", "MeshOutputSetIndices"}


def run(chk, crate="rssl_hlsl", P="C01"):
    f = chk.facts
    rule_op(chk, crate, P)
    rule_shape(chk, crate, P)
    if not rule_lit_eval(chk, crate, P):
        rule_lit(chk, crate, P)
    rule_scope_block_eval(chk, crate, P)
    if crate == "rssl_hlsl":
        rule_intrinsic(chk, P)
    if not rule_swizzle_eval(chk, crate, P):
        rule_swizzle(chk, crate, P)
    rule_order(chk, crate, P)
    import c04
    c04.rule_decl_refix(chk, prefix=P + ".decl", crate=crate)
    rule_export_modind(chk, crate, P)
    rule_stmt_eval(chk, crate, P)
    rule_single_eval(chk, crate, P)
    rule_enum_literal(chk, crate, P)
    if P == "C01":
        rule_conv(chk, P)
        rule_folded_constants(chk)
        import semmodel
        semmodel.rule_hlsl(chk, "C01.semantic")
        import c03
        c03.rule_local_type(chk, prefix="C01.decl/local-modifier-order")      # a `static` the typer does not see is a `static` the exporter does not print
    rule_text(chk, P)


def rule_folded_constants(chk):
    """Array sizes, case labels, enum values and template value arguments reach the HLSL text as the literal the constant
    folder computed, while the same operator in a run-time position is printed as the operator: the two agree only if
    evaluate_operator has the run-time semantics. The operator table of C13 (evaluate_operator walked on sample operands
    against the reference semantics) is therefore also an obligation of C01 (keys C13.op/..)."""
    import c13
    f = chk.facts
    ev = f.fn("evaluate_operator", c13.TY)
    if not ev:
        return      # C13 fails closed on the anchor
    if not c13.rule_op_eval(chk, ev):
        c13.rule_op(chk, ev)
    ec = f.fn("evaluate_cast", c13.TY)
    if ec:
        c13.rule_cast(chk, ec)


MI_TYPES = ["Bool", "Int32", "UInt32", "Float32", "Int323", "Float322", "Float324", "Float322x2", "Int324x4", "Enum", "Struct", "Float32[4]", "Float324[2]"]
_MI = {}


def _mi_task(item):
    """-> (family, readable, cases, first difference, unreadable reason)"""
    import elabmodel as EM
    import exportmodel as XM
    kind, arg = item
    if "rt" not in _MI:
        _MI["rt"] = XM.RoundTrip(_MI["facts"], _MI["crate"])
    rt = _MI["rt"]
    el = rt.el
    types = [t for t in MI_TYPES if t in el.u.names]
    rs = [el.ety(t, 0, "Lvalue") for t in ("Int32", "Float32", "Bool") if t in el.u.names]
    cases = 0
    bad = None

    def verdict(res, operands):
        if res[0] == "unreadable":
            raise I.Unknown(res[1])
        if res[0] != "Ok" or res[2] is None:
            return None
        x = rt.export(res[1], operands)
        if x[0] == "unreadable":
            raise I.Unknown(x[1])
        return "exported" if x[0] == "Ok" else "%s (%s)" % ("refused" if x[0] == "Err" else "aborts", x[1])

    def pair(what, build):
        nonlocal cases, bad
        vs = []
        for m in (0, 1):
            res, operands = build(m)
            vs.append(verdict(res, operands))
        if vs[0] is None or vs[1] is None:
            return
        cases += 1
        if vs[0] != vs[1] and bad is None:
            bad = "%s: %s when the operand is plain, %s when it is const" % (what, vs[0], vs[1])
    try:
        for t in types:
            if kind == "binop":
                for r in rs:
                    pair("%s %s %s" % (t, arg, el.describe(r)), lambda m: (el.run_binop(arg, el.ety(t, m, "Lvalue"), r), {"L": el.ety(t, m, "Lvalue"), "R": r}))
            elif kind == "unop":
                pair("%s applied to %s" % (arg, t), lambda m: (el.run_unop(arg, el.ety(t, m, "Lvalue")), {"L": el.ety(t, m, "Lvalue")}))
            elif kind == "subscript":
                for r in rs[:1]:
                    pair("%s[%s]" % (t, el.describe(r)), lambda m: (el.run_expr(I.Enum("Expression", "ArraySubscript", {"0": EM.located("L"), "1": EM.located("R")}), {"L": el.ety(t, m, "Lvalue"), "R": r}),
                                                                     {"L": el.ety(t, m, "Lvalue"), "R": r}))
            elif kind == "member":
                for sw in ("x", "xy", "wzyx", "_m00", "_m01_m10", "a"):
                    pair("%s.%s" % (t, sw), lambda m: (el.run_expr(I.Enum("Expression", "Member", {"0": EM.located("L"), "1": EM.member_path(sw)}), {"L": el.ety(t, m, "Lvalue")}), {"L": el.ety(t, m, "Lvalue")}))
    except I.Unknown as e:
        return (kind + "/" + arg, False, cases, bad, str(e)[:120])
    return (kind + "/" + arg, True, cases, bad, None)


def rule_export_modind(chk, crate, P):
    """The exporter's verdict on an expression does not depend on a const qualifier of an operand: for every operator,
    subscript and member access of the typed-expression model, generate_expression either exports both the plain and the
    const variant or refuses both for the same reason (a refusal that looks at the type with its modifiers still on lets
    the const variant through). Walked by the reader; nothing is executed."""
    import multiprocessing as mp
    import os
    f = chk.facts
    _MI.clear()
    _MI["facts"], _MI["crate"] = f, crate
    gen = f.fn("generate_expression", crate)
    if not gen:
        return False
    binops = f.variants("ast_expressions::BinOp", "rssl_ast") or []
    unops = [u for u in (f.variants("ast_expressions::UnaryOp", "rssl_ast") or []) if u not in ("Dereference", "AddressOf")]
    if chk.tier == "quick":
        binops = [b for b in binops if b in ("Add", "Multiply", "LeftShift", "LessThan", "BooleanAnd", "BitwiseAnd", "Assignment", "SumAssignment", "Sequence")]
    items = [("binop", b) for b in binops] + [("unop", u) for u in unops] + [("subscript", "index"), ("member", "path")]
    n = min(len(items), int(os.environ.get("VERIF_JOBS", "0") or 0) or (os.cpu_count() or 2))
    if n <= 1:
        res = [_mi_task(x) for x in items]
    else:
        with mp.get_context("fork").Pool(n) as pool:
            res = pool.map(_mi_task, items, chunksize=1)
    if not all(r[1] for r in res):
        chk.unreadable(P + ".modind/readable", "%s generate_expression on the expression model" % crate, [(r[0], r[4]) for r in res if not r[1]][:1], where(gen))
        return False
    for fam, _ok, cases, bad, _u in sorted(res):
        chk.ob("%s.modind/%s" % (P, fam), bad is None, "%d plain/const pairs get the same verdict from the exporter" % cases if bad is None else bad, where(gen), sample={"family": fam, "pairs": cases})
    chk.floor(P + ".floor/modind-pairs", sum(r[2] for r in res), 150, "plain/const expression pairs exported", where(gen))
    return True


def rule_stmt_eval(chk, crate, P):
    """generate_statement read as a table: every ir::StatementKind with tagged children (sub-exporters are stand-ins that
    wrap the tag) must come out as the statement kind of the same name with the same children in the same order; an
    absent optional child stays absent."""
    f = chk.facts
    g = f.fn("generate_statement", crate)
    kinds = f.variants("ir_statements::StatementKind", "rssl_ir")
    if not g or not kinds:
        return False
    opt = lambda v: I.Enum("Option", "None") if v is None else I.Enum("Option", "Some", {"0": v})
    ok = lambda v: I.Enum("Result", "Ok", {"0": v})
    E = lambda t: I.Enum("Expression", "Tagged", {"tag": t})
    stmt = lambda kind: I.Enum("Statement", None, {"kind": kind, "location": I.Opaque("location"), "attributes": []})
    B = lambda t: I.Enum("ScopeBlock", None, {"0": [stmt(I.Enum("StatementKind", "Tagged", {"tag": t}))], "1": I.Opaque("scope")})

    def deref(v):
        return v.get() if isinstance(v, I.Ref) else v
    ext = {"generate_expression": lambda a: ok(I.Enum("Expression", "Exported", {"tag": deref(a[0]).fields.get("tag")})),
           "generate_scope_block": lambda a: ok([stmt(I.Enum("StatementKind", "Exported", {"tag": deref(a[0]).fields["0"][0].fields["kind"].fields["tag"]}))]),
           "generate_statement_attribute": lambda a: ok(I.Opaque("attribute")),
           "generate_for_init": lambda a: ok(I.Enum("InitStatement", "Exported", {"tag": deref(a[0]).fields.get("tag")})),
           "generate_variable_definition": lambda a: ok(I.Enum("VarDef", "Exported", {"tag": deref(a[0]).fields.get("tag")})),
           "generate_literal": lambda a: ok(I.Enum("Expression", "Exported", {"tag": "k"}))}
    cases = {"Expression": [({"0": E("e")}, ["e"])], "If": [({"0": E("c"), "1": B("t")}, ["c", "t"])], "IfElse": [({"0": E("c"), "1": B("t"), "2": B("f")}, ["c", "t", "f"])],
             "While": [({"0": E("c"), "1": B("b")}, ["c", "b"])], "DoWhile": [({"0": B("b"), "1": E("c")}, ["b", "c"])], "Switch": [({"0": E("c"), "1": B("b")}, ["c", "b"])],
             "Break": [({}, [])], "Continue": [({}, [])], "Discard": [({}, [])], "DefaultLabel": [({}, [])], "Block": [({"0": B("b")}, ["b"])],
             "Return": [({"0": opt(E("r"))}, ["r"]), ({"0": opt(None)}, [])],
             "For": [({"0": I.Enum("ForInit", "Tagged", {"tag": "i"}), "1": opt(E("c")), "2": opt(E("n")), "3": B("b")}, ["i", "c", "n", "b"]),
                     ({"0": I.Enum("ForInit", "Tagged", {"tag": "i"}), "1": opt(None), "2": opt(E("n")), "3": B("b")}, ["i", "n", "b"]),
                     ({"0": I.Enum("ForInit", "Tagged", {"tag": "i"}), "1": opt(E("c")), "2": opt(None), "3": B("b")}, ["i", "c", "b"])],
             "Var": [({"0": I.Enum("VarDef", "Tagged", {"tag": "v"})}, ["v"])], "CaseLabel": [({"0": I.Enum("Constant", "Int32", {"0": 3})}, ["k"])]}

    def tags(v, out):
        if isinstance(v, I.Enum):
            if "tag" in v.fields and v.variant == "Exported":
                out.append(v.fields["tag"])
                return
            for _, x in sorted(v.fields.items()):
                tags(x, out)
        elif isinstance(v, (list, tuple)):
            for x in v:
                tags(x, out)
    n = 0
    for k in kinds:
        if k not in cases:
            chk.unreadable("%s.stmt/%s" % (P, k), "statement kind %s" % k, "a statement kind the model has no case for", where(g))
            continue
        bad = None
        for flds, want in cases[k]:
            ip = I.Interp(f, max_depth=5, extern=ext)
            try:
                r = ip.apply(g, [stmt(I.Enum("StatementKind", k, dict(flds))), I.Enum("GenerateContext", None, {"module": I.Opaque("module")})])
            except I.Unknown as e:
                if "panicking" in str(e):
                    bad = bad or "exporting a %s statement aborts (%s)" % (k, str(e)[:80])
                    continue
                chk.note("%s.stmt: generate_statement not readable on %s (%s); the shape rule decides" % (P, k, str(e)[:80]))
                return False
            n += 1
            if not (isinstance(r, I.Enum) and r.variant == "Ok"):
                continue        # a refusal is not a change of meaning
            kind = r.fields["0"].fields.get("kind") if isinstance(r.fields["0"], I.Enum) else None
            if not isinstance(kind, I.Enum):
                chk.note("%s.stmt: result of generate_statement not readable; the shape rule decides" % P)
                return False
            got = []
            tags(kind, got)
            same_kind = kind.variant == k or (k == "Discard" and crate == "rssl_msl" and kind.variant == "Expression")
            if not same_kind:
                bad = bad or "a %s statement is exported as a %s statement" % (k, kind.variant)
            elif got != want:
                bad = bad or "a %s statement with parts %s is exported with parts %s (dropped, repeated or reordered)" % (k, want, got)
        chk.ob("%s.stmt/%s" % (P, k), bad is None, bad or "exported as the same kind of statement with the same parts in order", where(g), sample={"kind": k})
    chk.floor(P + ".floor/statement-cases", n, 15, "statement forms exported", where(g))
    return True


def rule_single_eval(chk, crate, P):
    """An expression with an effect is evaluated exactly once by the emitted code: typed expressions of the model in which
    one operand is `i++` (operators, ternary positions, subscript index, casts to scalar / vector / matrix / struct, casts
    of an element or a swizzle of such a value) are handed to generate_expression; where the exporter accepts the node,
    the `++` occurs exactly once in what it builds (an exporter that writes an operand several times, or drops it,
    changes what the function computes). Walked by the reader; nothing is executed."""
    import elabmodel as EM
    import exportmodel as XM
    f = chk.facts
    gen = f.fn("generate_expression", crate)
    if not gen:
        return False
    rt = XM.RoundTrip(f, crate)
    el = rt.el
    need = [t for t in ("Int32", "Bool", "Float32", "Float324", "Int323", "Float322x2", "Struct", "Float32[4]") if t not in el.u.names]
    if need:
        chk.unreadable(P + ".once/readable", "the type universe", "types missing from the model: %s" % need, where(gen))
        return False
    i32 = el.ety("Int32", 0, "Lvalue")
    inc = el.run_unop("PostfixIncrement", i32)
    if inc[0] != "Ok":
        chk.unreadable(P + ".once/readable", "parse_expr_unaryop on `i++`", str(inc[1])[:80], where(gen))
        return False
    incn = inc[1]
    var_l = el.operand_node("L", i32)

    def replace(v, a, b):
        if isinstance(v, I.Enum):
            if v == a:
                return b
            return I.Enum(v.adt, v.variant, {k: replace(x, a, b) for k, x in v.fields.items()})
        if isinstance(v, list):
            return [replace(x, a, b) for x in v]
        if isinstance(v, tuple):
            return tuple(replace(x, a, b) for x in v)
        return v

    def subst(v):
        return replace(v, var_l, incn)

    def count(v):
        n = 1 if isinstance(v, I.Enum) and v.adt == "UnaryOp" and v.variant == "PostfixIncrement" else 0
        if isinstance(v, I.Enum):
            n += sum(count(x) for x in v.fields.values())
        elif isinstance(v, (list, tuple)):
            n += sum(count(x) for x in v)
        return n

    def count_ir(v):
        n = 1 if isinstance(v, I.Enum) and v == incn else 0
        if n:
            return 1
        if isinstance(v, I.Enum):
            return sum(count_ir(x) for x in v.fields.values())
        if isinstance(v, (list, tuple)):
            return sum(count_ir(x) for x in v)
        return 0
    T = lambda t: el.ety(t, 0, "Lvalue")
    tid = lambda t: el.ety(t, 0, "Lvalue").fields["0"]
    cases = {}      # family -> [(what, node, operands)]

    def add(fam, what, res, operands):
        if res[0] == "unreadable":
            raise I.Unknown(res[1])
        if res[0] == "Ok":
            node = subst(res[1])
            if count_ir(node) >= 1:
                cases.setdefault(fam, []).append((what, node, operands))
    try:
        for op in ("Add", "Multiply", "LessThan", "Equality", "BooleanAnd", "LeftShift", "BitwiseAnd", "Sequence"):
            for rt_ in ("Int32", "Float32"):
                add("binop", "i++ %s %s" % (op, rt_), el.run_binop(op, i32, T(rt_)), {"L": i32, "R": T(rt_)})
                add("binop", "%s %s i++" % (rt_, op), el.run_binop(op, T(rt_), i32) if rt_ != "Int32" else ("Err",), {"L": T(rt_), "R": i32})
        for op in ("Minus", "Plus", "LogicalNot", "BitwiseNot"):
            add("unop", "%s(i++)" % op, el.run_unop(op, i32), {"L": i32})
        add("ternary", "i++ ? a : b", el.run_ternary(i32, T("Float32"), T("Float32")), {"C": i32, "L": T("Float32"), "R": T("Float32")})
        add("ternary", "c ? i++ : b", el.run_ternary(T("Bool"), i32, T("Int32")), {"C": T("Bool"), "L": i32, "R": T("Int32")})
        for comp in ("Float32[4]", "Float324", "Int323"):
            ops_ = {"L": T(comp), "R": i32}
            r = el.run_expr(I.Enum("Expression", "ArraySubscript", {"0": EM.located("L"), "1": EM.located("R")}), ops_)
            if r[0] == "Ok":
                # (the index operand is R here: `j++` takes the place of the variable R)
                rn = el.operand_node("R", i32)
                node = replace(r[1], rn, replace(incn, var_l, rn))
                cases.setdefault("subscript", []).append(("%s[j++]" % comp, node, ops_))
    except I.Unknown as e:
        chk.unreadable(P + ".once/readable", "the typer's elaboration on the expression model", str(e)[:100], where(gen))
        return False
    for t in ("Float32", "Float324", "Int323", "Float322x2", "Struct", "Bool"):
        cases.setdefault("cast", []).append(("(%s)(i++)" % t, I.Enum("Expression", "Cast", {"0": tid(t), "1": incn}), {"L": i32}))
    for fam, lst in list(cases.items()):
        if fam == "subscript":
            for what, node, ops_ in list(lst):
                for t in ("Struct", "Float324"):
                    cases.setdefault("cast-of-element", []).append(("(%s)(%s)" % (t, what), I.Enum("Expression", "Cast", {"0": tid(t), "1": node}), ops_))
    n = 0

    def ir_count_any(v):
        if isinstance(v, I.Enum):
            if v.adt == "IntrinsicOp" and v.variant == "PostfixIncrement":
                return 1
            return sum(ir_count_any(x) for x in v.fields.values())
        if isinstance(v, (list, tuple)):
            return sum(ir_count_any(x) for x in v)
        return 0
    for fam, lst in sorted(cases.items()):
        bad = None
        for what, node, ops_ in lst:
            want = ir_count_any(node)
            x = rt.export(node, ops_)
            if x[0] == "unreadable":
                chk.unreadable("%s.once/%s" % (P, fam), "%s generate_expression on `%s`" % (crate, what), x[1], where(gen))
                bad = "unreadable"
                break
            n += 1
            if x[0] == "aborts":
                bad = bad or "exporting `%s` aborts (%s)" % (what, x[1])
            elif x[0] == "Ok":
                got = count(x[1])
                if got != want:
                    bad = bad or "`%s`: the operand with the effect is written %d time(s) in the exported expression (it occurs %d time(s) in the typed expression): %s" % (
                        what, got, want, "the effect is repeated" if got > want else "the effect is lost")
        if bad != "unreadable":
            chk.ob("%s.once/%s" % (P, fam), bad is None, bad or "%d expressions: `i++` is exported exactly as often as it occurs (or the node is refused)" % len(lst), where(gen),
                   sample={"family": fam, "expressions": len(lst)})
    chk.floor(P + ".floor/single-evaluation", n, 30, "expressions with an effect exported", where(gen))
    return True


def rule_enum_literal(chk, crate, P):
    """generate_literal on constants of enum type, read on a module with two enums (EnumRegistry is rssl's own, walked too;
    only the name map is a stand-in that answers with the id it is asked for): a constant equal to a declared enumerator is
    written as THAT enumerator of THAT enum; a value that no enumerator has is written as a cast of the number to the enum."""
    f = chk.facts
    gl = f.fn("generate_literal", crate)
    if not gl:
        return False
    ok = lambda v: I.Enum("Result", "Ok", {"0": v})
    loc = lambda v: I.Enum("Located", None, {"node": v, "location": I.Opaque("location")})
    tid = lambda n: I.Enum("TypeId", None, {"0": n})
    eid = lambda n: I.Enum("EnumId", None, {"0": n})
    vid = lambda n: I.Enum("EnumValueId", None, {"0": n})
    C = lambda k, v: I.Enum("Constant", k, {"0": v})
    # enum 0: Red=1 Green=2 Blue=4 (ids 0,1,2); enum 1: Off=0 Slow=10 Fast=20 Alias=10 (ids 3,4,5,6)
    vals = [(0, "Red", 1), (0, "Green", 2), (0, "Blue", 4), (1, "Off", 0), (1, "Slow", 10), (1, "Fast", 20), (1, "Alias", 10)]
    reg = I.Enum("EnumRegistry", None, {
        "definitions": [I.Enum("EnumDefinition", None, {"name": loc(n), "namespace": I.Enum("Option", "None")}) for n in ("Colour", "Mode")],
        "type_ids": [tid(50), tid(51)], "underlying_type_ids": [tid(2), tid(2)], "underlying_scalars": [I.Enum("ScalarType", "Int32")] * 2,
        "enum_value_id_for_type": [[vid(0), vid(1), vid(2)], [vid(3), vid(4), vid(5), vid(6)]],
        "enum_values": [I.Enum("EnumValue", None, {"enum_id": eid(e), "type_id": tid(50 + e), "name": loc(n), "value": C("Int32", v), "underlying_type_id": tid(2)}) for e, n, v in vals]})

    def deref(v):
        return v.get() if isinstance(v, I.Ref) else v
    ext = {"get_enum_value_name_full": lambda a: ok(I.Enum("ScopedName", None, {"0": ["<value %d>" % deref(a[1]).fields["0"]]})),
           "get_enum_name_full": lambda a: ok(I.Enum("ScopedName", None, {"0": ["<enum %d>" % deref(a[1]).fields["0"]]})),
           "get_enum_value_name": lambda a: ok("<value %d>" % deref(a[1]).fields["0"]), "get_enum_name": lambda a: ok("<enum %d>" % deref(a[1]).fields["0"]),
           "generate_type_id": lambda a: ok(I.Enum("TypeId", None, {"carried": a[0]}))}
    ctx = I.Enum("GenerateContext", None, {"module": I.Enum("Module", None, {"enum_registry": reg}), "name_map": I.Opaque("name map")})

    def names(v, out):
        if isinstance(v, str) and v.startswith("<"):
            out.append(v)
        elif isinstance(v, I.Enum):
            for x in v.fields.values():
                names(x, out)
        elif isinstance(v, (list, tuple)):
            for x in v:
                names(x, out)
    bad = None
    n = 0
    for e, val, want in ((0, 1, ["<value 0>"]), (0, 4, ["<value 2>"]), (1, 0, ["<value 3>"]), (1, 10, ["<value 4>", "<value 6>"]), (1, 20, ["<value 5>"]), (0, 3, ["<enum 0>"]), (1, 1, ["<enum 1>"]),
                         (1, 2, ["<enum 1>"])):
        ip = I.Interp(f, max_depth=8, extern=ext)
        try:
            r = ip.apply(gl, [C("Enum", None) if False else I.Enum("Constant", "Enum", {"0": eid(e), "1": C("Int32", val)}), ctx])
        except I.Unknown as ex:
            if "panicking" in str(ex):
                bad = bad or "exporting the constant %d of enum %s aborts (%s)" % (val, ("Colour", "Mode")[e], str(ex)[:60])
                continue
            chk.note("%s.enum-literal: generate_literal is not readable (%s)" % (P, str(ex)[:80]))
            return False
        n += 1
        if not (isinstance(r, I.Enum) and r.variant == "Ok"):
            continue
        got = []
        names(r.fields["0"], got)
        label = {"<value %d>" % i: "%s::%s" % (("Colour", "Mode")[e_], nm) for i, (e_, nm, _v) in enumerate(vals)}
        label.update({"<enum 0>": "(Colour)<number>", "<enum 1>": "(Mode)<number>"})
        if not got or got[0] not in want:
            bad = bad or "the constant %d of enum %s is written as %s, must be %s" % (val, ("Colour", "Mode")[e], label.get(got[0], got[0]) if got else "a bare literal", " or ".join(label[w] for w in want))
    chk.ob(P + ".enum-literal/names-its-own-enumerator", bad is None, bad or "%d constants of two enums are written as their own enumerators, or as casts when no enumerator has the value" % n, where(gl),
           sample={"constants": n})
    return True


def rule_text(chk, P):
    """The emitted tree becomes text through rssl_formatter: a lost parenthesis re-groups the expression under the
    target's grammar and two operator spellings printed back to back read as another operator. The C09 parenthesis,
    operand-side and adjacency rules are re-evaluated under this property. Not re-keyed: an assignment inside a `?:`
    branch printed without parentheses - HLSL (DXC) and Metal are C++-like grammars that accept it with the same
    grouping (the repository's golden Metal output contains it); it is a finding of C09/C04 only, where the text is
    re-read by rssl's own parser."""
    import c04
    import c09
    import interp as I

    class Px(c04.Proxy):
        def _k(self, key):
            for a, b in self.mapping:
                if key.startswith(a):
                    return b + key[len(a):]
            return P + ".text/" + key

        def ob(self, key, ok, why="", where=None, trivial=False, sample=None):
            if key.startswith(("C09.paren/TernaryConditional.1/", "C09.paren/TernaryConditional.2/")) and "@expr_p14" in key:
                return ok
            return c04.Proxy.ob(self, key, ok, why, where, trivial, sample)
    px = Px(chk, [("C09.paren", P + ".regroup"), ("C09.adj", P + ".adjacent"), ("C09.anchor", P + ".anchor/c09"), ("C09.floor", P + ".floor/c09"),
                  ("C09.assoc", P + ".assoc"), ("C09.sides", P + ".sides"), ("C09.lexer", P + ".lexer")])
    try:
        fm = c09.Formatter(px)
        pr = c09.Parser(px)
        lx = c09.Lexer(px)
        c09.rule_paren(px, fm, pr)
        c09.rule_adj(px, fm, pr, lx)
    except (c09.Missing, I.Unknown) as e:
        chk.ob(P + ".anchor/c09-extraction", False, "anchor-missing: %s" % e, "rssl_formatter / rssl_parser")
    # identifier capture changes what a use refers to: the NameMap uniqueness / visibility rules and the qualified-reference
    # rule of C15 are re-evaluated under this property (for this target only)
    import c15
    tgt = "/hlsl" if P == "C01" else "/msl"
    other = "/msl" if P == "C01" else "/hlsl"

    class Nx(c04.Proxy):
        def _k(self, key):
            for a, b in self.mapping:
                if key.startswith(a):
                    return b + key[len(a):]
            return P + ".names/" + key

        def ob(self, key, ok, why="", where=None, trivial=False, sample=None):
            if other in key:
                return ok
            return c04.Proxy.ob(self, key, ok, why, where, trivial, sample)

        def floor(self, key, count, floor, what, where=None):
            if other in key:
                return True
            return c04.Proxy.floor(self, key, count, floor, what, where)
    nx = Nx(chk, [("C15.unique", P + ".names-unique"), ("C15.verbatim", P + ".names-verbatim"), ("C15.seeded", P + ".names-seeded"),
                  ("C15.ref", P + ".names-qualified"), ("C15.anchor", P + ".anchor/c15"), ("C15.floor", P + ".floor/c15")])
    c15.rule_namemap(nx)
    c15.rule_qualified_refs(nx)
    c15.rule_qualified_eval(nx)


# ------------------------------------------------------------------ operators

def typer_op_tables(f):
    """ast::BinOp -> IntrinsicOp and ast::UnaryOp -> IntrinsicOp from the typer."""
    bt, ut = {}, {}
    pb = f.fn("parse_expr_binop", "rssl_typer")
    pu = f.fn("parse_expr_unaryop", "rssl_typer")
    for fn, adt, tab in ((pb, "BinOp", bt), (pu, "UnaryOp", ut)):
        if not fn:
            continue
        for m in [m_ for b_ in F.family(f, fn, depth=1) for m_ in F.find_matches(b_, adt, deep=False)]:
            for arm in m["arms"]:
                ctors = [a["variant"] for a in F.exprs(arm["body"], "Adt") if short(a["adt"]) == "IntrinsicOp" and not a["fields"]]
                alts = [F.pat_variant(a) for a in F.pat_alternatives(arm["pat"])]
                alts = [a[1] for a in alts if a and a[0] == adt]
                if len(set(ctors)) == 1 and len(alts) == 1:
                    tab.setdefault(alts[0], set()).add(ctors[0])
                elif len(alts) == 2 and set(ctors) and adt == "UnaryOp":
                    # `Plus | Minus` arm with an inner match on op
                    for mm in F.find_matches_in(arm["body"], adt) if hasattr(F, "find_matches_in") else []:
                        pass
        # inner matches (unary Plus/Minus) are separate Match nodes over the same adt; the loop above visits them too
    return bt, ut, pb, pu

def typer_op_tables_eval(f):
    """ast::BinOp / ast::UnaryOp -> IntrinsicOp read off the nodes that parse_expr_binop / parse_expr_unaryop build for
    simple operands (elabmodel.py). None when not readable."""
    import elabmodel as EM
    try:
        el = EM.Elab(f)
    except Exception:
        return None
    if not el.binop or not el.unop:
        return None
    bt, ut = {}, {}
    binops = f.variants("ast_expressions::BinOp", "rssl_ast") or []
    unops = f.variants("ast_expressions::UnaryOp", "rssl_ast") or []
    cands = [("Int32", 0, "Lvalue"), ("Bool", 0, "Lvalue"), ("Float32", 0, "Lvalue")]
    for op in binops:
        for t in cands:
            r = el.run_binop(op, el.ety(*t), el.ety(t[0], 0, "Rvalue"))
            if r[0] == "unreadable":
                return None
            if r[0] == "Ok" and isinstance(r[1], I.Enum) and r[1].variant == "IntrinsicOp":
                bt.setdefault(op, set()).add(r[1].fields["0"].variant)
    for op in unops:
        for t in cands:
            r = el.run_unop(op, el.ety(*t))
            if r[0] == "unreadable":
                return None
            if r[0] == "Ok" and isinstance(r[1], I.Enum) and r[1].variant == "IntrinsicOp":
                ut.setdefault(op, set()).add(r[1].fields["0"].variant)
    return bt, ut


def exporter_op_table_eval(f, crate):
    """IntrinsicOp -> (form, ast operator) read off the node generate_intrinsic_op builds (generate_expression scripted:
    operand k becomes the identifier `argk`); also checks that the operands are passed on in order. None when not readable."""
    g = f.fn("generate_intrinsic_op", crate)
    if not g:
        return None
    ops = f.variants("intrinsics::IntrinsicOp", "rssl_ir") or []
    tab, unmapped, order_bad = {}, set(), []

    def gen_expr(a):
        e = a[0].get() if isinstance(a[0], I.Ref) else a[0]
        return I.Enum("Result", "Ok", {"0": I.Enum("Expression", "Identifier", {"0": e.fields.get("0")})})
    ip = I.Interp(f, max_depth=6, extern={"generate_expression": gen_expr})
    for op in ops:
        for n_args in (1, 2):
            args = [I.Enum("Expression", "Variable", {"0": "arg%d" % k}) for k in range(n_args)]
            try:
                r = ip.apply(g, [I.Enum("IntrinsicOp", op), args, I.Opaque("context")])
            except I.Unknown as e:
                if "panicking" in str(e):
                    continue
                return None
            if not (isinstance(r, I.Enum) and r.variant == "Ok"):
                continue
            node = r.fields["0"]
            if node.variant == "UnaryOperation":
                tab[op] = ("Unary", "UnaryOp", node.fields["0"].variant)
                kids = [node.fields["1"]]
            elif node.variant == "BinaryOperation":
                tab[op] = ("Binary", "BinOp", node.fields["0"].variant)
                kids = [node.fields["1"], node.fields["2"]]
            else:
                continue
            names = []
            for kd in kids:
                kd = kd.fields.get("0") if isinstance(kd, I.Enum) and kd.adt == "Box" else kd
                nd = kd.fields.get("node") if isinstance(kd, I.Enum) and kd.adt == "Located" else kd
                names.append(nd.fields.get("0") if isinstance(nd, I.Enum) else None)
            if names != ["arg%d" % k for k in range(len(kids))]:
                order_bad.append((op, names))
            break
        if op not in tab:
            unmapped.add(op)
    return g, tab, unmapped, order_bad


def exporter_op_table(f, crate):
    g = f.fn("generate_intrinsic_op", crate)
    tab = {}
    unmapped = set()
    if not g:
        return None, tab, unmapped
    for m in F.find_matches(g, "IntrinsicOp"):
        for arm in m["arms"]:
            forms = [a for a in F.exprs(arm["body"], "Adt") if short(a["adt"]) == "Form"]
            alts = [F.pat_variant(a) for a in F.pat_alternatives(arm["pat"])]
            alts = [a[1] for a in alts if a and a[0] == "IntrinsicOp"]
            if forms and len(alts) == 1:
                inner = F.adt_ctor(forms[0]["fields"][0]["e"]) if forms[0]["fields"] else None
                if inner:
                    tab[alts[0]] = (forms[0]["variant"], inner[0], inner[1])
            elif not forms:
                unmapped |= set(alts)
    return g, tab, unmapped


def rule_op(chk, crate, P):
    f = chk.facts
    bt, ut, pb, pu = typer_op_tables(f)
    ev_t = typer_op_tables_eval(f)
    if ev_t is not None:
        bt, ut = ev_t           # read off the built nodes; the arm-shape extraction above is the fallback
    g, et, unmapped = exporter_op_table(f, crate)
    ev_e = exporter_op_table_eval(f, crate)
    if ev_e is not None:
        g, et, unmapped, order_bad = ev_e
        chk.ob(P + ".op/operand-order", not order_bad, "every operator node receives its operands in order" if not order_bad else
               "IntrinsicOp::%s is printed with its operands as %s" % order_bad[0], where(g))
    if not chk.anchor(P + ".anchor/%s/generate_intrinsic_op" % crate, g, "generate_intrinsic_op"):
        return
    chk.anchor(P + ".anchor/typer-op-tables", pb and pu, "typer operator tables")
    chk.floor(P + ".floor/typer-binops", len(bt), 29, "ast::BinOp -> IntrinsicOp entries", where(pb) if pb else None)
    chk.floor(P + ".floor/typer-unops", len(ut), 8, "ast::UnaryOp -> IntrinsicOp entries", where(pu) if pu else None)
    chk.floor(P + ".floor/exporter-ops", len(et), 37, "IntrinsicOp -> ast operator entries", where(g))
    for src_tab, kind, adt in ((bt, "Binary", "BinOp"), (ut, "Unary", "UnaryOp")):
        for op, irs in sorted(src_tab.items()):
            key = P + ".op/%s::%s" % (kind, op)
            if len(irs) != 1:
                chk.ob(key, False, "typer maps ast %s::%s to several IntrinsicOps %s" % (adt, op, sorted(irs)), where(g))
                continue
            ir = next(iter(irs))
            back = et.get(ir)
            ok = back is not None and back[0] == kind and back[1] == adt and back[2] == op
            chk.ob(key, ok, "%s -> IntrinsicOp::%s -> %s" % (op, ir, back[2] if back else None) if ok else
                   "source operator %s::%s is typed as IntrinsicOp::%s, which the exporter prints as %s: the emitted operator differs" % (adt, op, ir, back),
                   where(g), sample={"source_op": op, "ir": ir, "emitted": back[2] if back else None})
    # injective
    vals = [v for v in et.values()]
    dup = sorted({v[2] for v in vals if vals.count(v) > 1})
    chk.ob(P + ".op/injective", not dup, "distinct IntrinsicOps print as distinct operators" if not dup else "two IntrinsicOps print as the same operator: %s" % dup, where(g))
    if crate == "rssl_hlsl":
        chk.ob(P + ".op/unmapped", unmapped == INTERNAL_OPS, "only the internal operators are unmapped: %s" % sorted(unmapped) if unmapped == INTERNAL_OPS else
               "operators without a printed form: %s (expected exactly %s)" % (sorted(unmapped), sorted(INTERNAL_OPS)), where(g))


# ------------------------------------------------------------------ shape

def ir_child_index(o, ir_adt, ir_variant):
    """If origin o is (a component of) field i of the matched IR node, return i."""
    if o[0] != "param":
        return None
    for s in o[3]:
        if s[0] == "v" and s[1] == ir_adt and s[2] == ir_variant:
            return s[3]
    return None


def rule_shape(chk, crate, P):
    f = chk.facts
    def small_helper(p):
        # private constructors like `fn make_block_statement(b) -> Box<Statement>`: same crate, not a generator, small
        b_ = f.bodies.get(p)
        return b_ is not None and b_.get("crate") == crate and short(p) not in VIA and not short(p).startswith(("generate_", "analyse_")) and \
            "thir" in b_ and sum(1 for _ in F.walk(b_["thir"])) < 400
    tr = TF.Tracer(f, max_depth=2, via=VIA, inline=lambda p: p.startswith(("rssl_text::", "alloc::")) or small_helper(p))
    total = 0
    for fn_name, ir_adt, out_adt in (("generate_expression", "Expression", "Expression"), ("generate_statement", "StatementKind", "StatementKind"),
                                     ("generate_for_init", "ForInit", "InitStatement"), ("generate_initializer_inner", "Initializer", "Initializer")):
        b = f.fn(fn_name, crate)
        if not chk.anchor(P + ".anchor/%s/%s" % (crate, fn_name), b, fn_name):
            continue
        ms = F.find_matches(b, ir_adt)
        if not ms:
            chk.ob(P + ".shape/%s" % fn_name, False, "anchor-missing: match over ir::%s" % ir_adt, where(b))
            continue
        m = max(ms, key=lambda x: len(x["arms"]))
        irdef = f.adt("::" + ir_adt, "rssl_ir") or f.adt(ir_adt, "rssl_ir")
        for arm in m["arms"]:
            for alt in F.pat_alternatives(arm["pat"]):
                pv = F.pat_variant(alt)
                if not pv or pv[0] != ir_adt:
                    continue
                V = pv[1]
                want_out = RENAMED.get(V, V)
                outs = [a for a in F.exprs(arm["body"], "Adt") if short(a["adt"]) == out_adt and a.get("variant") == want_out and a["fields"]]
                if not outs:
                    continue
                # which IR fields are expression-like children (by pattern binding types)
                per_field = {}
                for out in outs:
                    for fl in out["fields"]:
                        got = set()
                        for path in DRILL:
                            for o in tr.trace(b, fl["e"], path):
                                if o[0] == "via":
                                    ci = ir_child_index(o[2], ir_adt, V)
                                    if ci is not None:
                                        got.add((o[1], ci))
                        per_field.setdefault(fl["f"], set()).update(got)
                for fi, got in sorted(per_field.items()):
                    if not got:
                        continue
                    total += 1
                    idxs = {ci for _, ci in got}
                    ok = idxs == {fi}
                    chk.ob(P + ".shape/%s/%s.%s" % (fn_name, V, fi), ok,
                           "child %s of the syntax node comes from child %s of ir::%s::%s via %s" % (fi, fi, ir_adt, V, sorted({t for t, _ in got})) if ok else
                           "child %s of the emitted %s::%s is built from child %s of ir::%s::%s: operands are swapped, duplicated or dropped"
                           % (fi, out_adt, want_out, sorted(idxs), ir_adt, V), where(b, arm),
                           sample={"fn": fn_name, "ir": V, "ast_field": fi, "ir_fields": sorted(idxs)})
                # every expression-like child of the IR node is used by some field
                used = {ci for got in per_field.values() for _, ci in got}
                binds = F.pat_binds(alt)
                for bid, bname, bpath in binds:
                    if not bpath:
                        continue
                    idx = bpath[0]
                    bty = ""
                    for sp in alt.get("subs", []):
                        if str(sp["f"]) == idx:
                            bty = sp["p"].get("ty", "")
                    if ("Expression" in bty or "ScopeBlock" in bty or "ForInit" in bty) and idx not in used:
                        total += 1
                        chk.ob(P + ".shape/%s/%s.%s/used" % (fn_name, V, idx), False,
                               "child %s (%s) of ir::%s::%s never reaches the emitted node: that sub-expression is dropped" % (idx, bname, ir_adt, V), where(b, arm))
    # generate_intrinsic_op: Unary: operand = exprs[0]; Binary: left = exprs[0], right = exprs[1]
    g = f.fn("generate_intrinsic_op", crate)
    if g:
        tr2 = TF.Tracer(f, max_depth=1, via=VIA, inline=lambda p: p.startswith(("rssl_text::", "alloc::")))
        for a in F.exprs(g["thir"], "Adt"):
            if short(a["adt"]) == "Expression" and a.get("variant") in ("UnaryOperation", "BinaryOperation"):
                for fl in a["fields"]:
                    if fl["f"] == "0":
                        continue
                    got = set()
                    for path in DRILL:
                        for o in tr2.trace(g, fl["e"], path):
                            if o[0] == "via" and o[2][0] == "param" and o[2][2] == 1:
                                idx = [s[1] for s in o[2][3] if s[0] == "idx"]
                                if idx:
                                    got.add(idx[0])
                    want = int(fl["f"]) - 1
                    total += 1
                    ok = got == {want}
                    chk.ob(P + ".shape/generate_intrinsic_op/%s.%s" % (a["variant"], fl["f"]), ok,
                           "operand %s = exprs[%d]" % (fl["f"], want) if ok else
                           "operand %s of the emitted %s is exprs%s, must be exprs[%d] (operands swapped or duplicated)" % (fl["f"], a["variant"], sorted(got), want),
                           where(g, a), sample={"node": a["variant"], "field": fl["f"], "exprs_index": sorted(got)})
    chk.floor(P + ".floor/%s/shape-instances" % crate, total, 28 if crate == "rssl_hlsl" else 20, "child-position instances", crate)


# ------------------------------------------------------------------ order / selection

REORDER = {"rev", "skip", "take", "step_by", "skip_while", "take_while", "chunks", "windows", "last", "nth",
           "retain", "dedup", "swap", "reverse", "truncate", "pop", "remove", "split_first", "split_last", "split_at", "sort", "sort_by",
           "sort_by_key", "sort_unstable", "swap_remove", "drain", "insert"}
RANGES = {"RangeFrom", "RangeTo", "Range", "RangeInclusive", "RangeToInclusive"}
# Every operation in an exporter crate that skips or reorders elements of a sequence, confirmed by reading. Counted per
# crate (moving code between functions does not change it); filter / map / index loops are not inventoried (they are the
# usual shape of a behaviour-preserving refactor), index ranges are judged by rule_ranges instead.   op -> (count, why)
ORDER_TABLE = {
    "rssl_hlsl": {
        "rev": (3, "Sequence is folded from the last element: (a, (b, c)); modifiers are prepended in reverse twice"),
        "split_last": (1, "the Sequence fold starts with the last element"),
        "split_first": (1, "generate_for_init: the first declaration supplies the shared type, the rest are appended in order"),
    },
    "rssl_msl": {
        "insert": (3, "mesh output helper receives the output object as extra argument; helper namespace first; metal:: qualification"),
        "rev": (4, "Sequence fold; modifiers prepended in reverse (3)"),
        "split_last": (1, "Sequence fold"),
        "split_first": (2, "generate_for_init shared type; object type is the first argument type of an intrinsic method"),
        "retain": (1, "process_mesh_entry: mesh output locals are removed"),
        "sort_by": (3, "argument buffer members by api index; stages by kind; helper objects (hash iteration)"),
        "sort": (2, "required globals and helpers are sorted (hash iteration)"),
    },
}


def order_inventory(f, crate):
    inv = {}
    where_ = {}
    for b in f.crates[crate]["bodies"]:
        if "thir" not in b:
            continue
        owner = short(b.get("parent") or b["path"])
        for c in F.exprs(b["thir"], "Call"):
            n = short(c.get("fn") or "")
            fn = c.get("fn") or ""
            if n in REORDER and any(x in fn for x in ("iter", "slice", "vec::Vec", "Vec::<")):
                if n == "insert" and "Vec" not in fn:
                    continue
                # an adapter on a generator (repeat_with(..).take(n), (0..n).rev(), once(..)) does not touch an emitted sequence
                root = c
                while isinstance(root, dict) and root.get("k") == "Call" and root.get("args"):
                    nxt = F.strip(root["args"][0])
                    if not (isinstance(nxt, dict) and nxt.get("k") == "Call"):
                        break
                    root = nxt
                if short(root.get("fn") or "") in ("repeat_with", "repeat", "repeat_n", "once", "empty", "from_fn", "successors"):
                    continue
                inv[n] = inv.get(n, 0) + 1
                where_.setdefault(n, []).append(owner)
    return inv, where_


def rule_order(chk, crate, P):
    """Nothing is skipped or reordered: every reverse / skip / split / sort / insert / remove operation on a sequence in the exporter is a reviewed one."""
    f = chk.facts
    inv, wh = order_inventory(f, crate)
    table = ORDER_TABLE[crate]
    cn = crate.replace("rssl_", "")
    for key in sorted(set(inv) | set(table)):
        got = inv.get(key, 0)
        want, why = table.get(key, (0, None))
        # reversals, splits and sorts come in matched pairs with the code that relies on them: both directions count.
        # insert / retain / skip-like operations are judged one way only: a new one can drop or displace an element, a
        # removed one means the sequence is now built another way (that construction is read by the shape rules)
        # (a count that went DOWN is not reported: a loop rewritten without the adapter cannot be told from a dropped
        # adapter by counting; what the rewritten function computes is the business of the evaluated tables)
        ok = got <= want
        chk.ob(P + ".order/%s/%s" % (cn, key), ok,
               "%d x %s: %s" % (got, key, why) if ok else
               ("%s now has %d `%s` operation(s) on sequences (reviewed: %d) in %s: elements of an emitted sequence can be skipped or reordered"
                % (crate, got, key, want, sorted(set(wh.get(key, []))))), crate, sample={"op": key, "count": got, "in": sorted(set(wh.get(key, [])))})
    # index ranges: `a..b` loops start at 0; slicing ranges `[k..]` only ever peel the object of a method call (k = 1)
    n = 0
    for b in f.crates[crate]["bodies"]:
        if "thir" not in b:
            continue
        owner = short(b.get("parent") or b["path"])
        for a in F.exprs(b["thir"], "Adt"):
            sa = short(a["adt"])
            if sa not in RANGES:
                continue
            fl = {str(x["f"]): x["e"] for x in a["fields"]}
            st = F.lit(F.strip(fl["start"])) if "start" in fl else None
            n += 1
            if sa in ("Range", "RangeInclusive"):
                ok = st is None or st[1] == 0
                chk.ob(P + ".order/%s/range-start/%s" % (cn, owner), ok, "index range starts at 0 (or at a computed bound)" if ok else
                       "an index range in %s starts at %s: the first element(s) of the sequence are skipped" % (owner, st[1]), where(b, a))
            elif sa == "RangeFrom":
                ok = st is not None and st[1] == 1
                chk.ob(P + ".order/%s/slice-from/%s" % (cn, owner), ok, "`[1..]`: element 0 is the object of the method call and is emitted separately" if ok else
                       "a slice in %s starts at %s, not 1: arguments are dropped (or the object repeated)" % (owner, st[1] if st else "a computed index"), where(b, a))
            else:
                chk.ob(P + ".order/%s/slice-to/%s" % (cn, owner), False, "a `..k` slice in %s truncates an emitted sequence" % owner, where(b, a))
    chk.floor(P + ".floor/%s/ranges" % cn, n, 1, "index / slice ranges judged", crate)


# ------------------------------------------------------------------ literals

REF_LIT = {"Bool": "Bool", "UInt32": "IntUnsigned32", "Int64": "IntSigned64", "UInt64": "IntUnsigned64", "FloatLiteral": "FloatUntyped",
           "Float16": "Float16", "Float32": "Float32", "Float64": "Float64", "Int32": "IntUntyped", "IntLiteral": "IntUntyped"}


def rule_scope_block_eval(chk, crate, P):
    """generate_scope_block read on statement lists with case / default labels (the statement printer is a stand-in that
    hands back a scripted ast statement per IR statement): a label takes the statement that follows it, stacked labels
    (`case 1: case 2: x;`) all stay, nothing is dropped or reordered - the flattened sequence of labels and statements
    that comes out is the one that went in (placeholders aside)."""
    import interp as I
    f = chk.facts
    fn = f.fn("generate_scope_block", crate)
    if not fn:
        return
    st = lambda kind, *a: I.Enum("Statement", None, {"kind": I.Enum("StatementKind", kind, {str(i): v for i, v in enumerate(a)}), "location": I.Opaque("location"), "attributes": []})
    case = lambda k: ("case %s" % k, lambda: st("CaseLabel", I.Enum("Expression", "Tagged", {"tag": k}), st("Empty")))
    default = ("default", lambda: st("DefaultLabel", st("Empty")))
    x = lambda t: ("stmt %s" % t, lambda: st("Expression", I.Enum("Expression", "Tagged", {"tag": t})))
    brk = ("break", lambda: st("Break"))
    empty = ("empty", lambda: st("Empty"))
    lists = {"single-labels": [case(1), x("a"), brk, default, x("b")], "stacked-labels": [case(1), case(2), case(3), x("a"), brk, case(4), x("b")],
             "default-among-cases": [default, case(9), x("a"), brk], "label-with-empty-statement": [case(1), empty, case(2), x("a")], "label-at-end": [case(1), x("a"), brk, default],
             "no-labels": [x("a"), x("b"), brk]}

    def flatten(s_):
        s_ = s_.get() if isinstance(s_, I.Ref) else s_
        k = s_.fields["kind"]
        if k.variant == "CaseLabel":
            return ["case %s" % k.fields["0"].fields.get("tag")] + flatten(k.fields["1"])
        if k.variant == "DefaultLabel":
            return ["default"] + flatten(k.fields["0"])
        if k.variant == "Empty":
            return []
        if k.variant == "Expression":
            return ["stmt %s" % k.fields["0"].fields.get("tag")]
        return [k.variant.lower()]
    t = crate.replace("rssl_", "")
    for lname, spec in lists.items():
        made = [mk() for _n, mk in spec]
        it = iter(made)
        ext = {"generate_statement": lambda a, it=it: I.Enum("Result", "Ok", {"0": next(it)})}
        key = "%s.stmt/%s/scope-block/%s" % (P, t, lname)
        try:
            r = I.Interp(f, max_depth=6, extern=ext).apply(fn, [I.Enum("ScopeBlock", None, {"0": [I.Opaque("ir statement")] * len(spec), "1": I.Opaque("declarations")}), I.Opaque("context")])
        except I.Unknown as e:
            if "panicking" in str(e):
                chk.ob(key, False, "generate_scope_block aborts on %s (%s)" % ([n_ for n_, _m in spec], str(e)[:60]), where(fn))
            else:
                chk.unreadable(key, "generate_scope_block on a scripted statement list", str(e)[:100], where(fn))
            continue
        want = [n_ for n_, _m in spec if n_ != "empty"]
        got = None
        if isinstance(r, I.Enum) and r.variant == "Ok" and isinstance(r.fields.get("0"), list):
            got = [y for s_ in r.fields["0"] for y in flatten(s_)]
        chk.ob(key, got == want, "labels and statements in order: %s" % want if got == want else
               "the block `%s` is exported as `%s`: a label or a statement is lost, repeated or moved (the exported switch selects other code for some values)" % ("; ".join(want), "; ".join(got) if got is not None else r),
               where(fn), sample={"list": lname})


def rule_lit_eval(chk, crate, P):
    """generate_literal read as a table (litmodel): every constant kind x payloads (zero, small, negative, the ends of the
    range) comes out as a literal of the kind that means the same type, standing for the same number (a negative integer
    as minus its magnitude), or the whole kind is refused with an error; and a source literal, typed by parse_literal and
    printed again, is the literal that was written. True when readable; rule_lit (shape) is the fallback."""
    import litmodel as L
    f = chk.facts
    gl = f.fn("generate_literal", crate)
    pl = f.fn("parse_literal", "rssl_typer")
    tab = L.generate_table(f, crate)
    if isinstance(tab, str) or not gl or not pl:
        chk.note("%s.lit: %s; the shape rule decides" % (P, tab if isinstance(tab, str) else "parse_literal not found"))
        return False
    t = crate.replace("rssl_", "")
    for k, want in REF_LIT.items():
        rows = tab.get(k)
        if rows is None:
            continue
        bad = None
        refused = [o for _v, o in rows if o[0] == "refused"]
        for v, o in rows:
            if o[0] == "aborts":
                bad = bad or "Constant::%s(%r) aborts the exporter (%s)" % (k, v, o[1])
            elif o[0] == "refused":
                if len(refused) != len(rows):
                    bad = bad or "Constant::%s(%r) is refused while other %s values are printed" % (k, v, k)
            elif o[1] != want:
                bad = bad or "Constant::%s(%r) is printed as Literal::%s, must be %s: the literal changes type" % (k, v, o[1], want)
            elif L.denotes(o) != v or (isinstance(o[2], int) and not isinstance(o[2], bool) and o[1] != "IntSigned64" and not (0 <= o[2] < 2 ** 64)):
                bad = bad or "Constant::%s(%r) is printed as %sLiteral::%s(%r), which stands for %r" % (k, v, "-" if o[3] else "", o[1], o[2], L.denotes(o))
        chk.ob(P + ".lit/%s/%s" % (t, k), bad is None, bad or ("Constant::%s is refused with an error" % k if refused else "Constant::%s -> Literal::%s, same value (%d payloads)" % (k, want, len(rows))),
               where(gl), sample={"constant": k, "payloads": len(rows)})
        if any(isinstance(v, int) and not isinstance(v, bool) and v < 0 for v, _o in rows) and want == "IntUntyped":
            chk.ob(P + ".lit/%s/%s-negative" % (t, k), True, "decided with %s.lit/%s/%s" % (P, t, k), where(gl), trivial=True)
    n = 0
    for lk, ps in L.LITERALS.items():
        bad = None
        for p_ in ps:
            c = L.parse(f, pl, lk, p_)
            if c[0] == "unreadable":
                chk.note("%s.lit: parse_literal is not readable on Literal::%s (%s); the shape rule decides" % (P, lk, c[1]))
                return False
            if c[0] != "const":
                continue
            o = L.generate(f, gl, c[1], c[2])
            if o[0] == "unreadable":
                chk.note("%s.lit: generate_literal is not readable on Constant::%s(%r); the shape rule decides" % (P, c[1], c[2]))
                return False
            n += 1
            if o[0] == "aborts":
                bad = bad or "the source literal %s(%r) is typed as Constant::%s(%r), which aborts the exporter (%s)" % (lk, p_, c[1], c[2], o[1])
            elif o[0] == "lit" and (o[1], o[2], o[3]) != (lk, p_, False):
                bad = bad or "a source literal %s(%r) is typed as Constant::%s(%r) and printed as %sLiteral::%s(%r): the literal changes" % (lk, p_, c[1], c[2], "-" if o[3] else "", o[1], o[2])
        chk.ob(P + ".lit/%s/roundtrip-%s" % (t, lk), bad is None, bad or "Literal::%s -> Constant -> Literal::%s, same payload" % (lk, lk), where(gl))
    chk.floor(P + ".floor/%s/literal-roundtrips" % t, n, 20, "source literals typed and printed again", where(gl))
    return True


def rule_lit(chk, crate, P):
    f = chk.facts
    gl = f.fn("generate_literal", crate)
    pl = f.fn("parse_literal", "rssl_typer")
    if not chk.anchor(P + ".anchor/%s/generate_literal" % crate, gl, "generate_literal") or not pl:
        return
    c2l = {}
    neg_guard = {}
    m = max(F.find_matches(gl, "Constant"), key=lambda x: len(x["arms"]))
    for arm in m["arms"]:
        pv = F.pat_variant(F.pat_alternatives(arm["pat"])[0])
        lits = [a for a in F.exprs(arm["body"], "Adt") if short(a["adt"]) == "Literal" and a["fields"]]
        if pv and not lits and any(short(a["adt"]) == "Result" and a.get("variant") == "Err" for a in F.exprs(arm["body"], "Adt")):
            c2l.setdefault(pv[1], set()).add("<refused>")      # the exporter reports an error for this kind: nothing is printed
            continue
        if not pv or not lits:
            continue
        c2l.setdefault(pv[1], set()).add(lits[0]["variant"])
        minus = any(short(a["adt"]) == "UnaryOp" and a.get("variant") == "Minus" for a in F.exprs(arm["body"], "Adt"))
        if minus:
            g = arm.get("guard")
            lt0 = g is not None and any(b["op"] == "Lt" and F.lit(b["r"]) == ("int", 0) for b in F.exprs(g, "Binary"))
            neg_guard[pv[1]] = lt0
    for k, want in REF_LIT.items():
        got = c2l.get(k, set())
        chk.ob(P + ".lit/%s/%s" % (crate.replace("rssl_", ""), k), got == {want} or got == {"<refused>"}, ("Constant::%s -> Literal::%s" % (k, want) if got == {want} else "Constant::%s is refused with an error" % k) if got in ({want}, {"<refused>"}) else
               "Constant::%s is printed as Literal::%s, must be %s" % (k, sorted(got), want), where(gl), sample={"constant": k, "literal": sorted(got)})
    for k, ok in sorted(neg_guard.items()):
        chk.ob(P + ".lit/%s/%s-negative" % (crate.replace("rssl_", ""), k), ok, "negative %s values are printed as -(magnitude) under `v < 0`" % k if ok else
               "the Minus(...) form of Constant::%s is no longer guarded by `v < 0`" % k, where(gl))
    # composition with the typer: Literal -> Constant -> Literal is the identity on kinds
    l2c = {}
    m2 = max(F.find_matches(pl, "Literal"), key=lambda x: len(x["arms"]))
    for arm in m2["arms"]:
        pv = F.pat_variant(F.pat_alternatives(arm["pat"])[0])
        cs = [a for a in F.exprs(arm["body"], "Adt") if short(a["adt"]) == "Constant" and a["fields"]]
        if pv and cs:
            l2c[pv[1]] = cs[0]["variant"]
    for lk, ck in sorted(l2c.items()):
        back = c2l.get(ck, set())
        ok = back == {lk} or back == {"<refused>"}
        chk.ob(P + ".lit/%s/roundtrip-%s" % (crate.replace("rssl_", ""), lk), ok, "Literal::%s -> Constant::%s -> Literal::%s" % (lk, ck, lk) if ok else
               "a source literal of kind %s is typed as Constant::%s and printed as %s: the literal changes type" % (lk, ck, sorted(back)), where(gl))


# ------------------------------------------------------------------ intrinsic names

def rule_intrinsic(chk, P):
    f = chk.facts
    g = f.fn("generate_intrinsic_function", "rssl_hlsl")
    if not chk.anchor(P + ".anchor/generate_intrinsic_function", g, "generate_intrinsic_function"):
        return
    emit = {}
    for m in F.find_matches(g, "Intrinsic"):
        for arm in m["arms"]:
            forms = [a for a in F.exprs(arm["body"], "Adt") if short(a["adt"]) == "Form" and a["fields"]]
            if not forms:
                continue
            l = F.lit(forms[0]["fields"][0]["e"])
            for alt in F.pat_alternatives(arm["pat"]):
                pv = F.pat_variant(alt)
                if pv and pv[0] == "Intrinsic" and l:
                    emit[pv[1]] = (forms[0]["variant"], l[1])
    chk.floor(P + ".floor/intrinsic-forms", len(emit), 238, "Intrinsic -> emitted name entries", where(g))
    decl = {}
    sigs = {}       # intrinsic -> source name -> parameter lists declared under that name

    def _sig_repr(e):
        import json as _j

        def strip_ln(x):
            if isinstance(x, dict):
                return {k: strip_ln(v) for k, v in x.items() if k != "ln"}
            if isinstance(x, list):
                return [strip_ln(v) for v in x]
            return x
        arrs = [a for a in F.walk(e or {}) if isinstance(a, dict) and a.get("k") == "Array"]
        return _j.dumps(strip_ln(arrs[0]["elems"]) if arrs else strip_ln(e), sort_keys=True)
    for b in f.crates["rssl_ir"]["bodies"]:
        if "intrinsic_data" not in b["path"] or "thir" not in b:
            continue
        for a in F.exprs(b["thir"], "Adt"):
            if short(a["adt"]) == "IntrinsicDefinition":
                fl = {x["f"]: x["e"] for x in a["fields"]}
                nm = F.lit(fl.get("function_name", {}))
                intr = F.adt_ctor(fl.get("intrinsic", {}))
                if nm and intr:
                    decl.setdefault(intr[1], set()).add(nm[1])
                    sigs.setdefault(intr[1], {}).setdefault(nm[1], set()).add(_sig_repr(fl.get("param_types")))
    chk.floor(P + ".floor/intrinsic-declarations", len(decl), 243, "intrinsics declared in intrinsic_data", "ir/src/intrinsic_data.rs")
    for intr, names in sorted(decl.items()):
        e = emit.get(intr)
        if names == {""}:
            continue      # unnamed internal intrinsic (not callable from source; created by the MSL simplifier)
        if e is None:
            chk.ob(P + ".intrinsic/%s" % intr, False, "intrinsic_data declares %s but generate_intrinsic_function has no form for it" % intr, where(g))
            continue
        # several source spellings may be declared for one Intrinsic (Gather / GatherRed are aliases): the emitted name must be one of them
        ok = e[1] in names
        if ok and len(names) > 1:
            # aliases: every parameter list that can be called under some source name must also exist under the emitted name
            under = sigs.get(intr, {})
            have = under.get(e[1], set())
            lost = sorted(n_ for n_, ss in under.items() if n_ != e[1] and ss - have)
            if lost:
                k_ = len(next(iter(under[lost[0]] - have)).split('"adt"')) - 1
                chk.ob(P + ".intrinsic/%s" % intr, False, "Intrinsic::%s is exported as `%s`, but `%s` is declared with a parameter list that `%s` does not have: that overload, written as %s in the source, "
                       "is exported as a call no declaration accepts" % (intr, e[1], lost[0], e[1], lost[0]), where(g), sample={"intrinsic": intr, "emitted": e[1], "declared_only_as": lost})
                continue
        chk.ob(P + ".intrinsic/%s" % intr, ok, "%s: declared %s, emitted %s" % (intr, sorted(names), e[1]) if ok else
               "Intrinsic::%s is declared under the source name %s but exported as `%s`: a different HLSL function is called" % (intr, sorted(names), e[1]),
               where(g), sample={"intrinsic": intr, "declared": sorted(names), "emitted": e[1]})


# ------------------------------------------------------------------ swizzles

def rule_swizzle_eval(chk, crate, P):
    """Swizzles and matrix swizzles by evaluation. HLSL: the expression fixpoint table (c04.rule_refix: export, then
    re-elaborate, gives the same node) under this property's keys. MSL: every swizzle the Metal exporter accepts is
    written exactly as the HLSL exporter writes it (sibling agreement on the typed-expression model). True when readable."""
    import c04
    if crate == "rssl_hlsl":
        return c04.rule_refix(chk, prefix=P + ".refix")
    import elabmodel as EM
    import exportmodel as XM
    f = chk.facts
    h, m = XM.RoundTrip(f, "rssl_hlsl"), XM.RoundTrip(f, crate)
    if not (h.gen and m.gen):
        return False
    el = h.el
    bad = None
    n = 0
    for t in ("Float322", "Float324", "Int323", "Float322x2", "Int324x4"):      # (a swizzle of a scalar is lowered differently in Metal: `s.x` is `s`)
        if t not in el.u.names:
            continue
        for sw in ("x", "y", "xy", "yx", "xx", "zyx", "xyzw", "wzyx", "rgba", "bgr", "_m00", "_m01", "_m10", "_m01_m10", "_11_22"):
            comp = el.ety(t, 0, "Lvalue")
            r = el.run_expr(I.Enum("Expression", "Member", {"0": EM.located("L"), "1": EM.member_path(sw)}), {"L": comp})
            if r[0] == "unreadable":
                return False
            if r[0] != "Ok":
                continue
            a, b = h.export(r[1], {"L": comp}), m.export(r[1], {"L": comp})
            if a[0] == "unreadable" or b[0] == "unreadable":
                continue        # (scalar swizzles take a Metal-only path through the constructor helpers: not part of this table)
            n += 1
            if a[0] == "Ok" and b[0] == "Ok" and a[1] != b[1] and not bad:
                bad = "%s.%s is written differently by the two exporters (HLSL: %s, MSL: %s): the Metal text selects other components" % (t, sw, el.show(a[1])[:80], el.show(b[1])[:80])
            elif b[0] == "aborts" and not bad:
                bad = "exporting %s.%s to MSL aborts (%s)" % (t, sw, b[1])
    chk.ob(P + ".swz/sibling", bad is None, bad or "%d member accesses: wherever the Metal exporter accepts one it writes what the HLSL exporter writes" % n, where(m.gen), sample={"accesses": n})
    return n >= 8


def rule_swizzle(chk, crate, P):
    f = chk.facts
    ge = f.fn("generate_expression", crate)
    if not ge:
        return
    out = {}

    def arm_char(arm):
        """the character an arm contributes: `s.push('x')` in the arm, or the arm's value `'x'` (pushed after the match)"""
        chars = [F.lit(c["args"][1]) for c in F.exprs(arm["body"], "Call") if short(c.get("fn") or "") == "push"]
        if chars and chars[0]:
            return chars[0][1]
        l = F.lit(F.strip(F.tail(arm["body"])))
        return l[1] if l and l[0] in ("char", "str") else None
    for m in F.find_matches(ge, "SwizzleSlot"):
        for arm in m["arms"]:
            pv = F.pat_variant(arm["pat"])
            ch_ = arm_char(arm)
            if pv and ch_:
                out[pv[1]] = ch_
    if not out:
        # the MSL exporter prints swizzles through a helper; look in the whole crate
        for b in f.crates[crate]["bodies"]:
            if "thir" not in b:
                continue
            for m in F.find_matches(b, "SwizzleSlot"):
                for arm in m["arms"]:
                    pv = F.pat_variant(arm["pat"])
                    chars = [F.lit(c["args"][1]) for c in F.exprs(arm["body"], "Call") if short(c.get("fn") or "") == "push"]
                    lits = [F.lit(x) for x in [arm["body"]]]
                    if pv and chars and chars[0]:
                        out[pv[1]] = chars[0][1]
                    elif pv and lits and lits[0] and lits[0][0] in ("char", "str"):
                        out[pv[1]] = lits[0][1]
    want = {"X": "x", "Y": "y", "Z": "z", "W": "w"}
    for k, v in want.items():
        chk.ob(P + ".swz/%s/%s" % (crate.replace("rssl_", ""), k), out.get(k) == v, "SwizzleSlot::%s -> '%s'" % (k, v) if out.get(k) == v else
               "SwizzleSlot::%s is printed as %r, must be %r" % (k, out.get(k), v), where(ge), sample={"slot": k, "char": out.get(k)})
    # typer side: char -> slot accepts xyzw / rgba with the same positions
    ty = {}
    for b in f.crates["rssl_typer"]["bodies"]:
        if "thir" not in b:
            continue
        for m in F.exprs(b["thir"], "Match"):
            for arm in m["arms"]:
                slot = [a["variant"] for a in F.exprs(arm["body"], "Adt") if short(a["adt"]) == "SwizzleSlot" and not a["fields"]]
                if len(set(slot)) != 1:
                    continue
                for alt in F.pat_alternatives(arm["pat"]):
                    if alt.get("k") == "Const" and isinstance(alt.get("v"), str) and len(alt["v"]) == 1:
                        ty[alt["v"]] = slot[0]
    ref = {"x": "X", "y": "Y", "z": "Z", "w": "W", "r": "X", "g": "Y", "b": "Z", "a": "W"}
    for ch, sl in ref.items():
        if P == "C01":
            chk.ob(P + ".swz/typer/%s" % ch, ty.get(ch) == sl, "'%s' -> SwizzleSlot::%s" % (ch, sl) if ty.get(ch) == sl else
                   "swizzle letter '%s' is read as %s, must be %s" % (ch, ty.get(ch), sl), "typer/src/typer/expressions.rs")
    if crate == "rssl_hlsl":
        ci = {}
        for m in F.find_matches(ge, "ComponentIndex"):
            for arm in m["arms"]:
                pv = F.pat_variant(arm["pat"])
                ch_ = arm_char(arm)
                if pv and ch_:
                    ci[pv[1]] = ch_
        wantc = {"First": "0", "Second": "1", "Third": "2", "Forth": "3"}
        for k, v in wantc.items():
            chk.ob(P + ".swz/matrix/%s" % k, ci.get(k) == v, "ComponentIndex::%s -> '%s' (zero-based _mRC form)" % (k, v) if ci.get(k) == v else
                   "ComponentIndex::%s is printed as %r, must be %r" % (k, ci.get(k), v), where(ge))
        pref = [F.lit(c["args"][1]) for c in F.exprs(ge["thir"], "Call") if short(c.get("fn") or "") == "push_str"]
        chk.ob(P + ".swz/matrix/prefix", ("str", "_m") in pref, "matrix swizzles use the zero-based `_m` prefix" if ("str", "_m") in pref else
               "matrix swizzle prefix changed (zero-based indices need `_m`)", where(ge))


def rule_conv(chk, P):
    f = chk.facts
    ap = f.fn("apply", "rssl_typer", self_ty="ImplicitConversion")
    if not chk.anchor(P + ".anchor/ImplicitConversion::apply", ap, "ImplicitConversion::apply"):
        return
    # apply evaluated over the type registry model: no conversion -> the expression itself; any numeric or dimension
    # conversion of a non-literal -> an explicit ir::Expression::Cast to the target type wrapping that expression
    import convmodel as CM
    import interp as I
    cv = CM.Conversions(f)
    var = I.Enum("Expression", "Variable", {"0": I.Opaque("v")})
    bad = []
    n = 0
    r = cv.find("Float32", "Rvalue", "Float32", "Rvalue")
    out = cv.apply(r[1], var) if r[0] == "Ok" else r
    n += 1
    if out is not var:
        bad.append("Float32 -> Float32 (no conversion) returns %r instead of the expression itself" % (out,))
    for src, dst in (("Int32", "Float32"), ("Float32", "Int32"), ("Float32", "Float324"), ("Float324", "Float322"), ("UInt32", "Bool"), ("Float32", "Float324x4"), ("Enum", "Int32")):
        r = cv.find(src, "Rvalue", dst, "Rvalue")
        if r[0] != "Ok":
            continue
        # the operand is a variable, or itself an explicit cast (`(float)v4` converted on to float3 means v4.xxx: the inner cast stays)
        inner_cast = I.Enum("Expression", "Cast", {"0": cv.u.type_id(src), "1": I.Enum("Expression", "Variable", {"0": I.Opaque("w")})})
        for operand, what in ((var, "a variable"), (inner_cast, "an explicit cast `(%s)w`" % src)):
            out = cv.apply(r[1], operand)
            n += 1
            okc = isinstance(out, I.Enum) and out.variant == "Cast" and out.fields.get("1") is operand and out.fields.get("0") == cv.u.type_id(dst)
            if not okc:
                bad.append("%s -> %s applied to %s yields %r, must be Cast(<%s>, <the whole operand>): a conversion written in the source is dropped or re-targeted" % (src, dst, what, out, dst))
    chk.ob(P + ".conv/explicit-cast", not bad, "apply returns the expression unchanged only when no cast is needed, otherwise an explicit Expression::Cast (%d conversions)" % n if not bad else
           "ImplicitConversion::apply: %s" % bad[0], where(ap))
    chk.ob(P + ".conv/cast-to-target", not bad, "the cast target is the conversion's target type" if not bad else "see conv/explicit-cast", where(ap), trivial=True)
