"""C15 — renaming is harmless and emitted names are hygienic."""
import re

import facts as F
import mirs as M
import thirflow as TF
from facts import short, where

EXPLANATION = (
    "Alpha-equivalence of outputs is a run-time comparison and is not decided. Decided structurally: C15.list — every "
    "entry of the HLSL / MSL RESERVED_NAMES tables (string literals and named constants resolved) is a well-formed "
    "identifier without duplicates. C15.builtins — every identifier the exporters themselves emit unqualified as a "
    "builtin (HLSL: all Form::Invoke intrinsic names, scalar type names, type names passed to Type::trivial; MSL: "
    "scalar type names, constants of names.rs, the `metal` / `helper` roots) is reserved in that target, so a user "
    "entity with that name is renamed. C15.flow — provenance of every declaration name the exporters build (struct, "
    "enum, enum value, cbuffer, function, namespace, declarators of globals / members / parameters / locals): traced "
    "back through the THIR value-origin slice to either NameMap::get_name_leaf/get_name_qualified or a raw IR `.name` "
    "read; raw reads bypass the reserved-word and uniqueness machinery and are reported per position; namespaces "
    "additionally break use/definition agreement because references are printed through NameMap. C15.unique / "
    "C15.verbatim / C15.seeded (NameMap::build): a name is assigned only when `used_names.insert` succeeded (direct "
    "name and `_N` loop, and for locals additionally not in all_local_names), the direct name is kept when the symbol "
    "is alone under its name, every scope's used-name set starts from the reserved set."
)
ASSUMPTIONS = ["rustc THIR/MIR is a faithful view of the source",
               "library names in MSL are emitted qualified (metal::, helper::) and therefore need no reservation"]

IDENT = re.compile(r"^[A-Za-z_][A-Za-z0-9_]*$")


def reserved_list(f, crate):
    c = f.const("RESERVED_NAMES", crate)
    if c is None:
        return None, None
    out = []
    # the list may be spelled in place or refer to another constant holding the array (`&RESERVED_NAMES_TABLE`)
    roots = [c["thir"]]
    seen = {c["path"]}
    for _ in range(3):
        for x in list(F.exprs(roots[-1], "Const")):
            cb = f.bodies.get(x.get("path"))
            if cb is not None and cb["path"] not in seen and "thir" in cb:
                seen.add(cb["path"])
                roots.append(cb["thir"])
    arrays = [arr for r_ in roots for arr in F.exprs(r_, "Array")]
    for arr in arrays:
        elems = arr["elems"]
        if len(elems) < 20:
            continue
        for x in elems:
            l = F.lit(x)
            if l:
                out.append(l[1])
            else:
                sx = F.strip(x)
                if sx.get("k") == "Const":
                    cb = f.bodies.get(sx["path"])
                    l2 = F.lit(cb["thir"]) if cb else None
                    out.append(l2[1] if l2 else "<unresolved %s>" % short(sx["path"]))
                else:
                    out.append("<unreadable>")
        break
    return c, out


def rule_inline_member_name(chk):
    """A buffer-address global of the Vulkan flavour is initialised from a member of the inline constant block, and that
    block's members are declared under the names the reflection lists, i.e. the global's NameMap name. HLSL
    generate_global_variable is walked for such a global whose source name (`half`) differs from its NameMap name
    (`half_0`): the member it reads is the NameMap name, and so is the name it declares."""
    import interp as I
    import exportmodel as EX
    f = chk.facts
    fn = f.fn("generate_global_variable", "rssl_hlsl")
    if not fn:
        return
    d = EX.DeclRoundTrip(f)
    opt = d.opt
    g = I.Enum("GlobalVariable", None, {"name": d.loc("half"), "type_id": I.Enum("TypeId", None, {"0": 3}), "storage_class": I.Enum("GlobalStorage", "Static"),
                                        "api_slot": opt(I.Enum("ApiBinding", None, {"set": 2, "location": I.Enum("ApiLocation", "InlineConstant", {"0": 8}), "slot_type": opt(None)})),
                                        "lang_slot": I.Opaque("slot"), "init": opt(None), "is_bindless": False, "static_sampler": opt(None), "is_intrinsic": False})
    mod = I.Enum("Module", None, {"global_registry": [g], "flags": I.Enum("ModuleFlags", None, {"requires_vk_binding": True, "requires_buffer_address": True, "assigned_api_slots": True})})
    ext = d._ext(False, "half_0")
    r = d._run(fn, [I.Enum("GlobalId", None, {"0": 0}), I.Enum("GenerateContext", None, {"module": mod, "name_map": I.Opaque("names")})], ext)
    if r[0] == "unreadable":
        chk.note("C15.inline-member: generate_global_variable is not readable on a buffer-address global (%s); not decided" % (r[1],))
        return
    bad = None
    if r[0] != "Ok":
        bad = "generate_global_variable %s on a buffer-address global placed in the inline constant block (%s)" % (r[0], r[1])
    else:
        names = []
        st = [r[1]]
        while st:
            x = st.pop()
            x = x.get() if isinstance(x, I.Ref) else x
            if isinstance(x, I.Enum):
                if x.adt == "ScopedIdentifier":
                    ids = x.fields.get("identifiers") or []
                    names.append("::".join(str((i_.fields.get("node") if isinstance(i_, I.Enum) else i_)) for i_ in ids))
                st.extend(x.fields.values())
            elif isinstance(x, (list, tuple)):
                st.extend(x)
            elif isinstance(x, str) and x in ("half", "half_0"):
                names.append(x)
        if "half" in names:
            bad = "a buffer-address global `half` (emitted as `half_0`) is initialised from `g_inlineDescriptor2.half`: the block declares the member as `half_0`, and `half` is a reserved word of the target"
        elif "half_0" not in names:
            bad = "the NameMap name `half_0` of the global does not appear in what is emitted for it (%s)" % sorted(set(names))
    chk.ob("C15.inline-member/name", bad is None, bad or "the inline constant block is read under the global's NameMap name", where(fn))


def rule_namespace_nesting(chk):
    """Where a definition is declared: generate_root_definitions of both exporters read on a model module whose
    namespaces are A, A::B, A::B::C (the definition printer is a stand-in). A definition that lives in A::B::C is
    emitted inside `namespace A { namespace B { namespace C {` - outermost first - because every reference to it is
    written A::B::C::name; one in the root namespace is emitted bare."""
    import interp as I
    f = chk.facts
    opt = lambda v: I.Enum("Option", "None") if v is None else I.Enum("Option", "Some", {"0": v})
    ns = lambda n_: I.Enum("NamespaceId", None, {"0": n_})
    NAMES = {1: "A", 2: "B", 3: "C"}
    PARENT = {1: None, 2: 1, 3: 2}

    def deref(v):
        return v.get() if isinstance(v, I.Ref) else v
    for tgt, crate in (("hlsl", "rssl_hlsl"), ("msl", "rssl_msl")):
        fn = f.fn("generate_root_definitions", crate)
        if not fn:
            chk.note("C15.namespaces/%s: generate_root_definitions not found; not decided" % tgt)
            continue
        bad = None
        unread = None
        for where_, chain in ((None, []), (1, ["A"]), (2, ["A", "B"]), (3, ["A", "B", "C"])):
            ext = {"generate_root_definition": lambda a, w=where_: I.Enum("Result", "Ok", {"0": (opt(None if w is None else ns(w)), [I.Enum("RootDefinition", "Tagged", {"tag": "def"})])}),
                   "NamespaceRegistry::get_namespace_name": lambda a: NAMES[deref(a[1]).fields["0"]],
                   "NamespaceRegistry::get_namespace_parent": lambda a: opt(None if PARENT[deref(a[1]).fields["0"]] is None else ns(PARENT[deref(a[1]).fields["0"]]))}
            module = I.Enum("Module", None, {"namespace_registry": I.Opaque("namespace registry")})
            ctx = I.Enum("GenerateContext", None, {"module": module})
            out = []
            try:
                r = I.Interp(f, max_depth=6, extern=ext).apply(fn, [module, [I.Opaque("root definition")], out, ctx])
            except I.Unknown as e:
                if "panicking" in str(e):
                    bad = bad or "generate_root_definitions aborts for a definition in %s (%s)" % ("::".join(chain) or "the root namespace", str(e)[:60])
                else:
                    unread = str(e)[:100]
                continue
            got = []
            cur = out
            while len(cur) == 1 and isinstance(cur[0], I.Enum) and cur[0].variant == "Namespace":
                nm = cur[0].fields.get("0")
                got.append(nm.fields["node"] if isinstance(nm, I.Enum) else nm)
                cur = cur[0].fields.get("1")
            leaf = len(cur) == 1 and isinstance(cur[0], I.Enum) and cur[0].variant == "Tagged"
            if (got != chain or not leaf) and bad is None:
                bad = "a definition of namespace %s is emitted inside %s%s: references to it are written %s::name and find nothing (or another entity)" % (
                    "::".join(chain) or "(root)", " { ".join("namespace " + g for g in got) or "no namespace", "" if leaf else " (and not as one definition)", "::".join(chain))
        if unread and not bad:
            chk.unreadable("C15.namespaces/" + tgt, "generate_root_definitions on a model namespace tree", unread, where(fn))
        else:
            chk.ob("C15.namespaces/" + tgt, bad is None, bad or "definitions are wrapped in their namespaces outermost first (depth 0-3)", where(fn), sample={"target": tgt})


def rule_struct_member_names(chk):
    """Struct members are emitted under their source names (no name map stands between them), and a derived struct is
    emitted flattened with its base's members: the type checker's duplicate check is all that keeps two members of one
    emitted struct apart. parse_struct_internal is read on model definitions - own duplicates, a member named like an
    inherited one, plain inheritance, several declarators: a struct is accepted exactly when all the names it ends up
    with are distinct, and then holds the inherited members followed by its own."""
    import interp as I
    f = chk.facts
    fn = f.fn("parse_struct_internal", "rssl_typer")
    if not fn:
        chk.note("C15.struct-members: parse_struct_internal not found; not decided")
        return
    ok = lambda v: I.Enum("Result", "Ok", {"0": v})
    opt = lambda v: I.Enum("Option", "None") if v is None else I.Enum("Option", "Some", {"0": v})
    loc = lambda v: I.Enum("Located", None, {"node": v, "location": I.Opaque("location")})
    tid = lambda n_: I.Enum("TypeId", None, {"0": n_})
    mods = lambda: I.Enum("TypeModifierSet", None, {"modifiers": []})
    ty = lambda tag: I.Enum("Type", None, {"layout": I.Opaque("layout"), "modifiers": mods(), "location": I.Opaque("location"), "tag": tag})

    def deref(v):
        return v.get() if isinstance(v, I.Ref) else v

    def member(*names):
        return I.Enum("StructEntry", "Variable", {"0": I.Enum("StructMember", None, {"ty": ty("float"), "attributes": [], "defs": [
            I.Enum("InitDeclarator", None, {"declarator": I.Enum("Declarator", "Tagged", {"name": n_}), "location_annotations": [], "init": opt(None)}) for n_ in names]})})
    sm = lambda n_: I.Enum("StructMember", None, {"name": n_, "type_id": tid(3), "semantic": opt(None), "interpolation_modifier": opt(None), "precise": False})
    cases = {"inherits-and-adds": (True, [member("y")], ["x", "w", "y"]), "redeclares-inherited": (True, [member("x")], None), "redeclares-second-inherited": (True, [member("y"), member("w")], None),
             "own-duplicate": (False, [member("a"), member("a")], None), "own-duplicate-in-one-declaration": (False, [member("a", "a")], None), "several-declarators": (False, [member("a", "b"), member("c")], ["a", "b", "c"]),
             "only-inherited": (True, [], ["x", "w"]), "plain": (False, [member("a")], ["a"])}
    n = 0
    for cname, (derived, entries, want) in cases.items():
        base = I.Enum("StructDefinition", None, {"id": I.Enum("StructId", None, {"0": 0}), "type_id": tid(50), "name": loc("B"), "namespace": opt(None), "members": [sm("x"), sm("w")], "methods": []})
        own = I.Enum("StructDefinition", None, {"id": I.Enum("StructId", None, {"0": 1}), "type_id": tid(51), "name": loc("D"), "namespace": opt(None), "members": [], "methods": []})
        ctx = I.Enum("Context", None, {"module": I.Enum("Module", None, {"struct_registry": [base, own], "type_registry": I.Opaque("type registry"), "function_registry": I.Opaque("function registry")})})
        sd = I.Enum("StructDefinition", None, {"name": loc("D"), "base_types": [ty("B")] if derived else [], "template_params": I.Enum("TemplateParamList", None, {"0": []}), "members": list(entries)})
        ext = {"Context::begin_struct": lambda a: ok(I.Enum("StructId", None, {"0": 1})), "begin_struct": lambda a: ok(I.Enum("StructId", None, {"0": 1})),
               "parse_type_for_usage": lambda a: ok(tid(50 if deref(a[0]).fields.get("tag") == "B" else 3)),
               "TypeRegistry::get_type_layer": lambda a: I.Enum("TypeLayer", "Struct", {"0": I.Enum("StructId", None, {"0": 0})}) if deref(a[1]).fields["0"] == 50 else I.Enum("TypeLayer", "Scalar", {"0": I.Enum("ScalarType", "Float32")}),
               "push_scope_with_name": lambda a: 0, "revisit_scope": lambda a: (), "pop_scope": lambda a: (), "TypeRegistry::is_void": lambda a: False,
               "parse_interpolation_modifier": lambda a: ok(opt(None)), "parse_precise": lambda a: ok(opt(None)), "to_error_type": lambda a: I.Opaque("error type"),
               "parse_declarator": lambda a: ok((tid(3), I.Enum("ScopedIdentifier", None, {"base": I.Enum("ScopedIdentifierBase", "Relative"), "identifiers": [loc(deref(a[0]).fields["name"])]})))}
        key = "C15.struct-members/" + cname
        try:
            r = I.Interp(f, max_depth=8, extern=ext).apply(fn, [sd, opt(None), ctx])
        except I.Unknown as e:
            if "panicking" in str(e):
                chk.ob(key, False, "parse_struct_internal aborts on the model struct `%s` (%s)" % (cname, str(e)[:60]), where(fn))
            else:
                chk.unreadable(key, "parse_struct_internal on a model struct definition", str(e)[:100], where(fn))
            continue
        n += 1
        accepted = isinstance(r, I.Enum) and r.variant == "Ok"
        names = [m.fields.get("name") for m in own.fields["members"]] if accepted else None
        shown = "struct D%s { %s }" % (" : B" if derived else "", " ".join("float %s;" % ", ".join(d_.fields["declarator"].fields["name"] for d_ in e_.fields["0"].fields["defs"]) for e_ in entries))
        if want is None:
            bad = None if not accepted else "`%s` (B has members x, w) is accepted with members %s: the emitted struct declares one name twice" % (shown, names)
        else:
            bad = None if accepted and names == want else ("`%s` (B has members x, w) is refused" % shown if not accepted else "`%s` (B has members x, w) ends up with members %s, must be %s" % (shown, names, want))
        chk.ob(key, bad is None, bad or ("refused: a name would be declared twice" if want is None else "members %s" % want), where(fn), sample={"case": cname})
    chk.floor("C15.floor/struct-definitions", n, 6, "model struct definitions evaluated", where(fn))


def run(chk):
    f = chk.facts
    res = {}
    for tgt, crate, floor in (("hlsl", "rssl_hlsl", 220), ("msl", "rssl_msl", 90)):
        c, names = reserved_list(f, crate)
        if not chk.anchor("C15.anchor/%s/RESERVED_NAMES" % tgt, names, "%s RESERVED_NAMES" % tgt):
            continue
        res[tgt] = (c, names)
        chk.floor("C15.floor/%s/reserved" % tgt, len(names), floor, "%s reserved names" % tgt, where(c))
        seen = set()
        for n in names:
            if not IDENT.match(n):
                chk.ob("C15.list/%s/%s" % (tgt, n), False, "reserved-name entry %r is not an identifier: the word it was meant to reserve is not reserved" % n, where(c),
                       sample={"target": tgt, "entry": n})
            if n in seen:
                chk.ob("C15.list/%s/duplicate/%s" % (tgt, n), False, "duplicate entry", where(c))
            seen.add(n)
        chk.ob("C15.list/%s/well-formed" % tgt, True, "%d entries examined" % len(names), where(c), trivial=True)
    rule_builtins(chk, res)
    rule_flow(chk)
    rule_namemap(chk)
    rule_qualified_refs(chk)
    rule_qualified_eval(chk)
    rule_raw_names(chk)
    rule_leaf_identifiers(chk)
    rule_struct_member_names(chk)
    rule_namespace_nesting(chk)
    rule_inline_member_name(chk)


def rule_builtins(chk, res):
    f = chk.facts
    if "hlsl" in res:
        c, names = res["hlsl"]
        rs = set(names)
        g = chk.anchor("C15.anchor/hlsl/generate_intrinsic_function", f.fn("generate_intrinsic_function", "rssl_hlsl"), "hlsl intrinsic table")
        emitted = {}
        if g:
            for a in F.exprs(g["thir"], "Adt"):
                if short(a["adt"]) == "Form" and a.get("variant") == "Invoke":
                    l = F.lit(a["fields"][0]["e"])
                    if l:
                        emitted[l[1]] = "intrinsic function"
            chk.floor("C15.floor/hlsl/invoke-names", len(emitted), 100, "Form::Invoke names", where(g))
        emitted.update(type_names(f, "rssl_hlsl"))
        for n, what in sorted(emitted.items()):
            if not IDENT.match(n):
                continue
            chk.ob("C15.builtins/hlsl/%s" % n, n in rs, "%s `%s` is reserved" % (what, n) if n in rs else
                   "the HLSL exporter emits the builtin %s `%s` but it is not in RESERVED_NAMES: a user entity named `%s` is kept verbatim and clashes" % (what, n, n),
                   where(c), sample={"name": n, "kind": what})
    if "msl" in res:
        c, names = res["msl"]
        rs = set(names)
        emitted = type_names(f, "rssl_msl")
        for b in f.crates["rssl_msl"]["bodies"]:
            if b["kind"] == "Const" and "::names::" in b["path"] and b["name"] != "RESERVED_NAMES":
                l = F.lit(b["thir"])
                if l and l[0] == "str":
                    emitted[l[1]] = "generated name " + b["name"]
        emitted["metal"] = "library namespace"
        for n, what in sorted(emitted.items()):
            if not IDENT.match(n):
                continue
            chk.ob("C15.builtins/msl/%s" % n, n in rs, "%s `%s` is reserved" % (what, n) if n in rs else
                   "the MSL exporter emits %s `%s` unqualified but it is not in RESERVED_NAMES" % (what, n), where(c),
                   sample={"name": n, "kind": what})


def type_names(f, crate):
    out = {}
    g = f.fn("generate_scalar_type", crate)
    if g:
        for m in F.exprs(g["thir"], "Match"):
            for arm in m["arms"]:
                l = F.lit(arm["body"])
                if l and l[0] == "str":
                    out[l[1]] = "scalar type name"
    if crate == "rssl_hlsl":
        for b in f.crates[crate]["bodies"]:
            if "thir" not in b:
                continue
            for c in F.exprs(b["thir"], "Call"):
                if short(c.get("fn") or "") == "trivial" and "Type" in (c.get("fn") or "") and c.get("args"):
                    l = F.lit(c["args"][0])
                    if l and l[0] == "str":
                        out[l[1]] = "type name"
    return out


# ------------------------------------------------------------------ provenance

NAME_FIELDS = {"StructDefinition": "name", "EnumDefinition": "name", "EnumValue": "name", "ConstantBuffer": "name",
               "FunctionDefinition": "name"}
NAMEMAP = ("NameMap::get_name_leaf", "NameMap::get_name_qualified")
# functions that emit declarations of user entities (not generated helpers)
USER_DECL_FNS = {
    "rssl_hlsl": ("generate_root_definitions", "generate_global_variable", "generate_function_inner", "generate_function_param",
                  "generate_variable_definition", "generate_struct", "generate_enum", "generate_constant_buffer"),
    "rssl_msl": ("generate_root_definitions", "generate_global_constant", "generate_function_inner", "generate_function_param",
                 "generate_variable_definition", "generate_struct", "generate_enum", "analyse_globals"),
}


def classify(org):
    kinds = set()
    for o in org:
        if o[0] == "call" and o[1].endswith(NAMEMAP):
            kinds.add("namemap")
        elif o[0] in ("lit", "const"):
            kinds.add("generated")
        elif o[0] == "call" and short(o[1]) in ("must_use", "format"):
            kinds.add("generated")
        elif o[0] == "call" and short(o[1]) in ("from_residual",):
            pass
        else:
            kinds.add("raw")
    return kinds


RAW_NAME_ENTITIES = {
    # entity whose `.name` (or registry name getter) an exporter may read directly, and why that is not a hygiene leak
    "rssl_hlsl": {"ir_globals::ConstantVariable": "cbuffer members are emitted under their source names (known finding C15.flow/…/cbuffer member)",
                  "ir_structs::StructMember": "struct members are emitted under their source names (known finding C15.flow/…/struct member)",
                  "export::DescriptorBinding": "reflection data, not emitted text", "ir_globals::ConstantBuffer": "cbuffer names (known finding)",
                  "ir_enums::EnumValue": "enum values (known finding)", "ir_globals::GlobalVariable": "intrinsic globals keep their reserved names",
                  "get_function_name_definition": "reads the namespace of a function, not its name", "get_namespace_name": "namespace blocks (known finding C15.flow/…/namespace)",
                  "get_namespace_parent": "namespace nesting"},
    "rssl_msl": {"ir_structs::StructMember": "struct members are emitted under their source names (known finding)", "ir_enums::EnumValue": "enum values (known finding)",
                 "ir_globals::GlobalVariable": "intrinsic globals keep their reserved names", "get_global_name": "reflection metadata (C05 / C18 decide which name it must be)",
                 "get_function_name_definition": "reads the namespace of a function", "get_namespace_name": "namespace blocks (known finding)", "get_namespace_parent": "namespace nesting"},
}


def rule_raw_names(chk):
    """Who may read a source name: inside the exporters, the `.name` of an IR entity (and the registries' name getters) is
    read only for the entity kinds listed above - everything else that is spelled into the output (locals, parameters,
    functions, structs, enums, globals) goes through the NameMap, which is what keeps reserved words and clashes out.
    A read of another entity's source name is reported with the function it stands in."""
    f = chk.facts
    for crate, allowed in RAW_NAME_ENTITIES.items():
        seen = {}
        for b in f.crates[crate]["bodies"]:
            if "thir" not in b:
                continue
            for e in F.exprs(b["thir"], "Field"):
                if e.get("name") != "name" or not isinstance(e.get("e"), dict):
                    continue
                bt = (F.strip(e["e"]).get("ty") or "").replace("&", "").replace("mut ", "").strip()
                if bt.startswith("rssl_ir::"):
                    seen.setdefault(bt[len("rssl_ir::"):], []).append((b, e))
            for c in F.exprs(b["thir"], "Call"):
                fn = c.get("fn") or ""
                if fn.startswith("rssl_ir::") and "name" in short(fn) and "name_generator" not in fn:
                    seen.setdefault(short(fn), []).append((b, c))
        tgt = crate.replace("rssl_", "")
        for ent, sites in sorted(seen.items()):
            ok = ent in allowed
            b, node = sites[0]
            chk.ob("C15.rawnames/%s/%s" % (tgt, ent), ok, "%d read(s): %s" % (len(sites), allowed.get(ent)) if ok else
                   "%s reads the source name of a %s directly (%d site(s)): what is spelled into the %s output from it bypasses the NameMap, so a name that is reserved in the target "
                   "language, or that the NameMap gave to something else, is emitted as written" % (b["name"], ent, len(sites), tgt.upper()), where(b, node),
                   sample={"target": tgt, "entity": ent, "sites": len(sites)})
        chk.floor("C15.floor/%s/raw-name-kinds" % tgt, len(seen), 5, "entity kinds whose source name the %s exporter reads" % tgt, crate)


LEAF_IDENTIFIER_SITES = {
    # (crate, leaf-name getter of an entity that can live in a namespace) -> functions that may spell a reference with it, and why
    ("rssl_hlsl", "get_function_name"): {"generate_user_call": "method calls: `object.method(..)` and calls from inside the struct need no qualification"},
    ("rssl_msl", "get_function_name"): {"generate_user_call": "method calls: `object.method(..)` and calls from inside the struct need no qualification"},
    ("rssl_hlsl", "get_global_name"): {"generate_global_variable": "member of the inline constant buffer struct, not a reference to the global"},
    ("rssl_msl", "get_global_name"): {"generate_pipeline": "members of the argument buffer structs and entry-point locals, declared right there",
                                      "generate_expression": "globals are function parameters in Metal: a parameter has no namespace"},
}


def rule_leaf_identifiers(chk):
    """References to namespaced entities are spelled with their qualified name: an identifier built
    (ScopedIdentifier::trivial) from a LEAF name getter - get_function_name, get_struct_name, get_enum_name,
    get_global_name, get_enum_value_name - loses the namespace, so it can name nothing, or a same-named entity of another
    scope. The places where a leaf name is right are a frozen, reasoned set; any other is reported."""
    f = chk.facts
    LEAF = {"get_function_name", "get_struct_name", "get_enum_name", "get_global_name", "get_enum_value_name"}
    n = 0
    for crate in ("rssl_hlsl", "rssl_msl"):
        seen = {}
        for b in f.crates[crate]["bodies"]:
            if "thir" not in b:
                continue
            lets = F.let_table(b["thir"])
            owner = b["name"] if b["kind"] != "Closure" else short(b.get("parent") or "")
            for c in F.exprs(b["thir"], "Call"):
                if short(c.get("fn") or "") == "trivial" and "ScopedIdentifier" in (c.get("fn") or "") and c.get("args"):
                    arg = F.inline_lets(b["thir"], c["args"][0], 4, lets)
                    for x in F.exprs(arg, "Call"):
                        g = short(x.get("fn") or "")
                        if g in LEAF:
                            seen.setdefault((g, owner), []).append((b, c))
        tgt = crate.replace("rssl_", "")
        for (g, owner), sites in sorted(seen.items()):
            n += 1
            reason = LEAF_IDENTIFIER_SITES.get((crate, g), {}).get(owner)
            b, node = sites[0]
            chk.ob("C15.leafref/%s/%s/%s" % (tgt, g, owner), reason is not None, "%d site(s): %s" % (len(sites), reason) if reason else
                   "%s spells a reference with the unqualified name from %s (%d site(s)): an entity declared inside a namespace is then referred to without it - the reference names nothing, "
                   "or a same-named entity of the enclosing scope" % (owner, g, len(sites)), where(b, node), sample={"target": tgt, "getter": g, "function": owner, "sites": len(sites)})
    # (the sites are a frozen allow-list: fewer sites are fine - a site moved into a helper that is handed the name - as long as the rule still sees the exporters spell leaf names at all)
    chk.floor("C15.floor/leaf-identifier-sites", n, 2, "places where a leaf name is spelled as an identifier", "rssl_hlsl / rssl_msl")


def rule_flow(chk):
    f = chk.facts
    for crate, tgt in (("rssl_hlsl", "hlsl"), ("rssl_msl", "msl")):
        tr = TF.Tracer(f, max_depth=3, no_inline=NAMEMAP)
        n = 0
        for b in f.crates[crate]["bodies"]:
            if "thir" not in b or b["name"] not in USER_DECL_FNS[crate]:
                continue
            sites = []
            for a in F.exprs(b["thir"], "Adt"):
                an = short(a["adt"])
                if an == "RootDefinition" and a.get("variant") == "Namespace":
                    sites.append(("namespace", a["fields"][0]["e"], a))
                elif an in NAME_FIELDS:
                    for x in a["fields"]:
                        if x["f"] == NAME_FIELDS[an]:
                            sites.append((an + ".name", x["e"], a))
            for c in F.exprs(b["thir"], "Call"):
                if short(c.get("fn") or "") == "generate_type_and_declarator" and len(c.get("args", [])) > 1:
                    sites.append(("declarator", c["args"][1], c))
            for label, e, node in sites:
                org = tr.trace(b, e, (("f", "node"),)) or tr.trace(b, e, ())
                kinds = classify(org)
                n += 1
                pos = "%s/%s" % (b["name"], label)
                # the intrinsic-global branch legitimately reads the raw (reserved) name
                if b["name"] == "generate_global_variable" and "namemap" in kinds:
                    kinds.discard("raw")
                ok = "raw" not in kinds and bool(kinds)
                chk.ob("C15.flow/%s/%s" % (tgt, pos), ok,
                       "name comes from %s" % sorted(kinds) if ok else
                       "the declaration name at %s is read raw from the IR (%s): it bypasses NameMap, so a target-reserved word is "
                       "emitted verbatim%s" % (pos, sorted({TF.describe(o)[:60] for o in org})[:3],
                                               " and references (printed through NameMap::get_name_qualified) can name a different identifier" if label == "namespace" else ""),
                       where(b, node), sample={"target": tgt, "position": pos, "provenance": sorted(kinds)})
        chk.floor("C15.floor/%s/declaration-sites" % tgt, n, 8, "%s declaration-name sites" % tgt, crate)


# ------------------------------------------------------------------ NameMap::build

def rule_namemap_eval(chk, b):
    """NameMap::build evaluated (namemodel.py) on model modules, hash containers iterated forwards and backwards.
    Judged: (unique) in every scope the names of global symbols are pairwise distinct and none is a reserved word;
    (verbatim) a symbol whose name clashes with nothing keeps it; (locals) no local ends up spelled like a reserved word
    or like a name that was generated for a global symbol, renamed locals collide with no other local, and a local
    that clashes with nothing keeps its name; (deterministic) the result does not depend on the hash order. Returns
    False when the function cannot be read."""
    import namemodel as NM
    f = chk.facts
    m = NM.NameModel(f)
    RES = ["half", "float16_t", "fragment", "float"]
    scen = {
        "overloads-and-locals": dict(namespaces=[], structs=[("S", None)], enums=[], globals=[("g", None)],
                                     functions=[("f", None, "plain"), ("f", None, "plain"), ("pack", None, "template"), ("pack", None, "instance"), ("pack", None, "instance")],
                                     locals=["x", "f_0", "f_1", "pack_1", "g", "x"]),
        "reserved-words": dict(namespaces=[("N", None)], structs=[("half", None)], enums=[("fragment", 0)], globals=[("float16_t", 0), ("ok", 0)],
                               functions=[("float", None, "plain"), ("half", 0, "plain")], locals=["half", "fragment", "half_0", "y"]),
        "namespaces": dict(namespaces=[("N", None), ("M", None), ("K", 0)], structs=[("f", 2)], enums=[],
                           globals=[("v", None), ("v", 0), ("v", 1)],
                           functions=[("f", 0, "plain"), ("f", 0, "plain"), ("f", 1, "plain"), ("f", 1, "plain"), ("f", 1, "plain"), ("f_0", 1, "plain")], locals=["f_0", "f_2", "v"]),
        "nothing-clashes": dict(namespaces=[("A", None)], structs=[("S", None), ("T", 0)], enums=[("E", None)], globals=[("g", None), ("h", 0)],
                                functions=[("main", None, "plain"), ("helper", 0, "plain"), ("tmpl", None, "template")], locals=["a", "b", "a"]),
    }
    first = True
    for name, spec in scen.items():
        r1 = m.run(spec, RES, reverse=False)
        r2 = m.run(spec, RES, reverse=True)
        if isinstance(r1, tuple) and first and r1[0] == "unreadable":
            return False
        first = False
        why = None
        if isinstance(r1, tuple) or isinstance(r2, tuple):
            bad = r1 if isinstance(r1, tuple) else r2
            why = "building the name map %s (%s)" % (bad[0], bad[1][:100])
        else:
            if r1 != r2:
                d = [k for k in r1 if r1.get(k) != r2.get(k)]
                why = "the name given to %s %d depends on the hash order (%s / %s): two compilations of one input can differ" % (d[0][0], d[0][1], r1[d[0]], r2.get(d[0]))
            src = {}
            for kind, key in (("Struct", "structs"), ("Enum", "enums"), ("GlobalVariable", "globals")):
                for i, (nm, nsx) in enumerate(spec[key]):
                    src[(kind, i)] = (nsx, nm)
            for i, (nm, nsx, kd) in enumerate(spec["functions"]):
                if kd != "template":
                    src[("Function", i)] = (nsx, nm)
            for i, (nm, par) in enumerate(spec["namespaces"]):
                src[("Namespace", i)] = (par, nm)
            missing = [k for k in src if k not in r1] + [("LocalVariable", i) for i in range(len(spec["locals"])) if ("LocalVariable", i) not in r1]
            extra = [k for k in r1 if k[0] == "Function" and spec["functions"][k[1]][2] == "template"]
            if why is None and (missing or extra):
                why = "symbols without a name: %s; named templates: %s" % (missing, extra)
            if why is None:
                per_scope = {}
                for k, (nsx, nm) in r1.items():
                    if k[0] == "LocalVariable":
                        continue
                    if nm in RES:
                        why = "%s %d in scope %s is named `%s`, a reserved word of the target" % (k[0], k[1], nsx, nm)
                    if nm in per_scope.setdefault(nsx, {}):
                        why = "%s %d and %s %d in scope %s are both named `%s`" % (k + per_scope[nsx][nm] + (nsx, nm))
                    per_scope[nsx][nm] = k
                    if src[k][0] != nsx:
                        why = "%s %d moved from scope %s to %s" % (k + (src[k][0], nsx))
            if why is None:
                generated = {nm for k, (nsx, nm) in r1.items() if k[0] != "LocalVariable" and nm != src[k][1]}
                count = {}
                for k, v in src.items():
                    count[v] = count.get(v, 0) + 1
                for k, (nsx, nm) in r1.items():
                    if k[0] != "LocalVariable" and count[src[k]] == 1 and src[k][1] not in RES and src[k][1] not in generated and nm != src[k][1]:
                        why = "%s %d `%s` clashes with nothing but is renamed to `%s`" % (k + (src[k][1], nm))
                finals = {}
                for i, lname in enumerate(spec["locals"]):
                    nm = r1[("LocalVariable", i)][1]
                    if nm in RES:
                        why = "local `%s` is emitted as `%s`, a reserved word" % (lname, nm)
                    elif nm in generated:
                        why = "local `%s` is emitted as `%s`, which is also the name generated for a global symbol: inside its scope the local captures every use of that symbol" % (lname, nm)
                    elif nm != lname and (nm in spec["locals"] or nm in finals.values() and list(finals.values()).count(nm) > 0):
                        why = "local `%s` is renamed to `%s`, which another local already uses" % (lname, nm)
                    elif nm != lname and lname not in RES and lname not in generated:
                        why = "local `%s` clashes with nothing but is renamed to `%s`" % (lname, nm)
                    finals[i] = nm
        chk.ob("C15.unique/model/%s" % name, why is None, "names are unique per scope, avoid reserved words, keep unclashing names, locals avoid generated names; same result in both hash orders" if why is None else
               "NameMap::build on the model module `%s`: %s" % (name, why), where(b), sample={"scenario": name})
    for k_ in ("C15.unique/suffix-loop", "C15.unique/direct", "C15.verbatim/direct", "C15.unique/locals", "C15.unique/generated-visible-to-locals", "C15.seeded/reserved"):
        chk.ob(k_, True, "decided by the evaluated name map (C15.unique/model/*)", where(b), trivial=True)
    return True


def rule_namemap(chk):
    f = chk.facts
    b = chk.anchor("C15.anchor/NameMap::build", f.fn("build", "rssl_ir", self_ty="NameMap"), "NameMap::build")
    if not b:
        return
    evaluated = False
    try:
        evaluated = rule_namemap_eval(chk, b)
    except Exception as e:
        chk.note("name map model not evaluated: %r" % (e,))
    if evaluated:
        rule_namemap_callers(chk, b)
        return
    t = b["thir"]
    # names inserted into the final map
    inserts = [c for c in F.exprs(t, "Call") if short(c.get("fn") or "") == "insert" and "NameString" in str(c.get("targs", "")) + c.get("ty", "")]
    chk.floor("C15.floor/name-inserts", len(inserts), 2, "insertions into NameMap.names", where(b))

    def insert_guarded_breaks(root):
        """(ok, n): every `break <value>` is directly inside an `if` whose condition calls HashSet::insert."""
        n = bad = 0
        ifs = list(F.exprs(root, "If"))
        for x in F.walk(root):
            if x.get("k") != "Break" or "e" not in x:
                continue
            n += 1
            enclosing = [iff for iff in ifs if any(y is x for y in F.walk(iff["then"]))]
            if not enclosing:
                bad += 1
                continue
            inner = min(enclosing, key=lambda iff: sum(1 for _ in F.walk(iff)))
            if not any(short(c.get("fn") or "") == "insert" and "HashSet" in (c.get("fn") or "") for c in F.exprs(inner["cond"], "Call")):
                bad += 1
        return bad == 0, n
    ok, n = insert_guarded_breaks(t)
    chk.ob("C15.unique/suffix-loop", ok and n >= 2, "every generated `name_N` is accepted only when used_names.insert succeeded (%d loops)" % n if ok and n >= 2 else
           "a generated `name_N` candidate is accepted without a successful insert into the used-name set", where(b))
    # direct name: `if symbols.len() == 1 && used_names.insert(name.clone()) { name.clone() } else { loop }`
    direct = None
    for iff in F.exprs(t, "If"):
        c = F.strip(iff["cond"])
        if c.get("k") == "Logical" and c["op"] == "And" and any(x.get("k") == "Loop" for x in F.walk(iff.get("else", {}))):
            direct = iff
    if chk.anchor("C15.anchor/direct-name", direct, "`if symbols.len() == 1 && used_names.insert(name) {name} else {loop}`", where(b)):
        c = F.strip(direct["cond"])
        l, r = F.strip(c["l"]), F.strip(c["r"])
        len1 = l.get("k") == "Binary" and l["op"] == "Eq" and F.lit(l["r"]) == ("int", 1) and any(short(x.get("fn") or "") == "len" for x in F.exprs(l["l"], "Call"))
        ins = r.get("k") == "Call" and short(r.get("fn") or "") == "insert" and "HashSet" in (r.get("fn") or "")
        chk.ob("C15.unique/direct", bool(ins), "the direct name is taken only when used_names.insert succeeded" if ins else
               "the direct name is taken without inserting it into the scope's used-name set (two entities can share a name)", where(b, direct))
        then_v = F.leftmost_var(F.tail(direct["then"]))
        ins_v = F.leftmost_var(r["args"][1]) if ins and len(r.get("args", [])) > 1 else None
        same = then_v is not None and ins_v is not None and then_v["id"] == ins_v["id"]
        chk.ob("C15.verbatim/direct", bool(len1 and same), "a symbol alone under its name keeps that name verbatim" if len1 and same else
               "the direct-name branch no longer yields the original name when `symbols.len() == 1`", where(b, direct))
    # locals: candidate accepted only if not a local name and insert succeeded
    loc = False
    for iff in F.exprs(t, "If"):
        c = F.strip(iff["cond"])
        if c.get("k") == "Logical" and c["op"] == "And":
            l, r = F.strip(c["l"]), F.strip(c["r"])
            if l.get("k") == "Unary" and l["op"] == "Not" and any(short(x.get("fn") or "") == "contains" for x in F.exprs(l, "Call")) \
                    and r.get("k") == "Call" and short(r.get("fn") or "") == "insert":
                loc = any(x.get("k") == "Break" for x in F.walk(iff["then"]))
    chk.ob("C15.unique/locals", loc, "generated local names avoid all local names and all used global names" if loc else
           "the local-variable renaming loop no longer checks `!all_local_names.contains(c) && used_names_all_scopes.insert(c)`", where(b))
    # generated global names are published to the set the local-variable phase consults
    consult = None
    for iff in F.exprs(t, "If"):
        c = F.strip(iff["cond"])
        if c.get("k") == "Call" and short(c.get("fn") or "") == "contains" and "HashSet" in (c.get("fn") or "") and \
                any(x.get("k") == "Loop" for x in F.walk(iff["then"])) and "else" in iff:
            consult = iff
    if chk.anchor("C15.anchor/local-conflict-test", consult, "`if <all-scopes set>.contains(local name) { rename loop } else { keep }`", where(b)):
        allv = F.leftmost_var(F.strip(consult["cond"])["args"][0])
        ifs = list(F.exprs(t, "If"))
        n = bad = 0
        for x in F.walk(t):
            if x.get("k") != "Break" or "e" not in x or any(y is x for y in F.walk(consult)):
                continue
            enclosing = [iff for iff in ifs if any(y is x for y in F.walk(iff["then"]))]
            if not enclosing:
                continue
            inner = min(enclosing, key=lambda iff: sum(1 for _ in F.walk(iff)))
            bv = F.leftmost_var(x["e"])
            n += 1
            pub = False
            for c in F.exprs(inner["then"], "Call"):
                if short(c.get("fn") or "") == "insert" and "HashSet" in (c.get("fn") or "") and len(c.get("args", [])) > 1:
                    sv, av = F.leftmost_var(c["args"][0]), F.leftmost_var(c["args"][1])
                    if sv is not None and allv is not None and sv["id"] == allv["id"] and av is not None and bv is not None and av["id"] == bv["id"]:
                        pub = True
            if not pub:
                bad += 1
        ok = n >= 1 and bad == 0
        chk.ob("C15.unique/generated-visible-to-locals", ok,
               "every generated global `name_N` is inserted into the set the local-variable phase tests (%d site)" % n if ok else
               "a generated global name `name_N` is accepted without being recorded in `%s`, the set the local-variable phase tests: "
               "a local spelled like the generated name is emitted unchanged and shadows the renamed symbol" % ((allv or {}).get("name", "?")), where(b))
    # seeded: used_names = reserved_name_set.clone() per scope, reserved_name_set filled from reserved_names
    seeded = False
    fills = False
    params = [p.get("pat", {}) for p in b["params"]]
    rn = [p.get("id") for p in params if p.get("name") == "reserved_names"] or [params[1].get("id") if len(params) > 1 else None]
    for (p, it, body, node) in F.for_loops(t):
        v = F.leftmost_var(it)
        if v is not None and v["id"] in rn and body is not None:
            fills = any(short(c.get("fn") or "") == "insert" for c in F.exprs(body, "Call"))
            if fills:
                for c in F.exprs(body, "Call"):
                    if short(c.get("fn") or "") == "insert":
                        setv = F.leftmost_var(c["args"][0])
                        # every per-scope set is a clone of it
                        for (p2, it2, body2, node2) in F.for_loops(t):
                            if body2 is None or "HashMap" not in (it2.get("ty", "") + F.strip(it2).get("ty", "")):
                                continue
                            for s in F.walk(body2):
                                if s.get("k") == "LetStmt" and "init" in s:
                                    init = F.strip(s["init"])
                                    if init.get("k") == "Call" and short(init.get("fn") or "") == "clone":
                                        cv = F.leftmost_var(init["args"][0])
                                        if cv is not None and setv is not None and cv["id"] == setv["id"]:
                                            seeded = True
    chk.ob("C15.seeded/reserved", fills and seeded, "each scope's used-name set starts from all reserved names" if fills and seeded else
           "the per-scope used-name set is no longer seeded with the reserved names (fills=%s clone=%s)" % (fills, seeded), where(b))
    rule_namemap_callers(chk, b)


def rule_namemap_callers(chk, b):
    f = chk.facts
    # callers pass their own RESERVED_NAMES
    for crate in ("rssl_hlsl", "rssl_msl"):
        ok = False
        for bb in f.crates[crate]["bodies"]:
            if "thir" not in bb:
                continue
            for c in F.exprs(bb["thir"], "Call"):
                if c.get("fn") == b["path"]:
                    a1 = F.strip(F.inline_lets(bb["thir"], c["args"][1]))
                    ok = any(x.get("k") == "Const" and x["path"].startswith(crate) and short(x["path"]) == "RESERVED_NAMES" for x in F.walk(a1))
        chk.ob("C15.seeded/%s-passes-its-list" % crate, ok, "NameMap::build(module, %s::RESERVED_NAMES, ..)" % crate if ok else
               "%s no longer passes its own RESERVED_NAMES to NameMap::build" % crate, crate)

def rule_qualified_eval(chk):
    """NameMap::get_name_qualified read on a model name map (namespaces A > B > C, entities at depth 0..3): the path is
    the enclosing namespaces outermost first, then the entity's own name."""
    import interp as I
    f = chk.facts
    fn = f.fn("get_name_qualified", "rssl_ir", self_ty="NameMap")
    if not chk.anchor("C15.anchor/get_name_qualified", fn, "NameMap::get_name_qualified"):
        return
    ns = lambda i: I.Enum("NameSymbol", "Namespace", {"0": I.Enum("NamespaceId", None, {"0": i})})
    fnsym = lambda i: I.Enum("NameSymbol", "Function", {"0": I.Enum("FunctionId", None, {"0": i})})
    some = lambda i: I.Enum("Option", "Some", {"0": I.Enum("NamespaceId", None, {"0": i})})
    none = I.Enum("Option", "None")
    nm = lambda name, parent: I.Enum("Name", None, {"name": name, "namespace": parent})
    names = I.HMap()
    names.put(ns(0), nm("A", none))
    names.put(ns(1), nm("B", some(0)))
    names.put(ns(2), nm("C", some(1)))
    names.put(ns(3), nm("B", none))
    CASES = [(fnsym(0), "f0", none, ["f0"]), (fnsym(1), "f1", some(0), ["A", "f1"]), (fnsym(2), "f2", some(1), ["A", "B", "f2"]),
             (fnsym(3), "f3", some(2), ["A", "B", "C", "f3"]), (fnsym(4), "A", some(3), ["B", "A"])]
    for sym, leaf, parent, want in CASES:
        names.put(sym, nm(leaf, parent))
    nmap = I.Enum("NameMap", None, {"names": names})
    ip = I.Interp(f, max_depth=6, extern={})
    bad = None
    for sym, leaf, parent, want in CASES:
        try:
            r = ip.apply(fn, [nmap, sym])
        except I.Unknown as e:
            if "panicking" in str(e):
                bad = bad or "the qualified name of `%s` aborts (%s)" % ("::".join(want), str(e)[:60])
                continue
            chk.unreadable("C15.ref/qualified-path/readable", "NameMap::get_name_qualified", e, where(fn))
            return
        got = r.fields.get("0") if isinstance(r, I.Enum) else None
        if got != want:
            bad = bad or "an entity declared as %s is referred to as %s" % ("::".join(want), "::".join(map(str, got)) if isinstance(got, list) else got)
    chk.ob("C15.ref/qualified-path", bad is None, "entities at namespace depth 0..3: the path lists the namespaces outermost first, then the name" if bad is None else bad, where(fn))


def rule_qualified_refs(chk):
    """References to declarations that can live in a namespace are printed qualified: every GenerateContext helper that
    returns a ScopedName for an IR id builds it from NameMap::get_name_qualified and never from a leaf name
    (NameMap::get_name_leaf, directly or through a leaf helper) - a leaf name looked up at the use site can bind to a
    same-named entity of another scope."""
    f = chk.facts
    for tgt, crate, floor in (("hlsl", "rssl_hlsl", 3), ("msl", "rssl_msl", 3)):      # (liveness floors: code-site counts may shrink when helpers are merged)
        helpers = [b for b in f.crates[crate]["bodies"] if b.get("kind") == "AssocFn" and "GenerateContext" in (b.get("self_ty") or b["path"]) and
                   "thir" in b and short((b.get("ret") or "").split("<")[1].split(",")[0] if "Result<" in (b.get("ret") or "") else (b.get("ret") or "")) == "ScopedName"]
        by_path = {b["path"]: b for b in f.crates[crate]["bodies"] if "thir" in b}

        def closure(b, depth=0, seen=None):
            seen = seen if seen is not None else set()
            out = set()
            for c in F.exprs(b["thir"], "Call"):
                fn = c.get("rfn") or c.get("fn") or ""
                out.add(fn)
                if fn in by_path and fn not in seen and depth < 3:
                    seen.add(fn)
                    out |= closure(by_path[fn], depth + 1, seen)
            return out
        n = 0
        for b in helpers:
            cl = closure(b)
            q = any(short(x) == "get_name_qualified" for x in cl)
            leaf = any(short(x) == "get_name_leaf" for x in cl)
            n += 1
            ok = q and not leaf
            chk.ob("C15.ref/%s/%s" % (tgt, b["name"]), ok, "qualified name from NameMap::get_name_qualified" if ok else
                   "%s::%s returns a ScopedName that %s: a reference to a namespaced declaration loses its namespace and can bind to a same-named entity of another scope"
                   % (tgt, b["name"], "is built from a leaf name (NameMap::get_name_leaf)" if leaf else "does not come from NameMap::get_name_qualified"), where(b),
                   sample={"helper": b["name"], "qualified": q, "leaf": leaf})
        chk.floor("C15.floor/%s/qualified-helpers" % tgt, n, floor, "ScopedName-returning name helpers", crate)
