"""System-value semantics as one chain of three tables: parse_semantic (spelling -> Semantic), format_semantic_annotation
(Semantic -> HLSL spelling) and the Metal generator's generate_semantic_annotation (Semantic -> Metal attribute), each
walked by the finite-map reader on every spelling of REFERENCE.

REFERENCE is not taken from rssl: it pairs each HLSL system value with the Metal attribute that supplies the same
quantity (Metal Shading Language specification, tables of vertex / fragment / kernel function input and output
attributes), which is the semantics both emitted texts are read under."""
import interp as I
from facts import where as _where

# HLSL system value (as written in source) -> (canonical HLSL spelling, Metal attribute name, Metal attribute argument)
REFERENCE = {
    "SV_DispatchThreadID": ("sv_dispatchthreadid", "thread_position_in_grid", None),
    "SV_GroupID": ("sv_groupid", "threadgroup_position_in_grid", None),
    "SV_GroupIndex": ("sv_groupindex", "thread_index_in_threadgroup", None),
    "SV_GroupThreadID": ("sv_groupthreadid", "thread_position_in_threadgroup", None),
    "SV_VertexID": ("sv_vertexid", "vertex_id", None),
    "SV_InstanceID": ("sv_instanceid", "instance_id", None),
    "SV_PrimitiveID": ("sv_primitiveid", "primitive_id", None),
    "SV_Position": ("sv_position", "position", None),
    "SV_Target": ("sv_target0", "color", 0),
    "SV_Depth": ("sv_depth", "depth", "any"),
    "SV_DepthGreaterEqual": ("sv_depthgreaterequal", "depth", "greater"),
    "SV_DepthLessEqual": ("sv_depthlessequal", "depth", "less"),
    "TEXCOORD3": ("texcoord3", "user", "TEXCOORD3"),
    "Sv_Custom": ("sv_custom", "user", "Sv_Custom"),
}
for _i in range(8):
    REFERENCE["SV_Target%d" % _i] = ("sv_target%d" % _i, "color", _i)
# other spellings of the same values (semantics are case-insensitive in HLSL)
for _n in ("sv_groupid", "SV_GROUPTHREADID", "sv_position", "sv_target", "SV_TARGET2"):
    _k = [k for k in REFERENCE if k.lower() == _n.lower()][0]
    REFERENCE[_n] = REFERENCE[_k]


def tok(name):
    return I.Enum("LexToken", None, {"0": I.Enum("Token", "Id", {"0": I.Enum("Identifier", None, {"0": name})}), "1": I.Opaque("loc")})


class Chain:
    def __init__(self, facts):
        self.f = facts
        self.parse_fn = facts.fn("parse_semantic", "rssl_parser")
        self.format_fn = facts.fn("format_semantic_annotation", "rssl_formatter")
        self.msl_fn = facts.fn("generate_semantic_annotation", "rssl_msl")
        self.ip = I.Interp(facts)

    def parse(self, name):
        """-> Semantic value; raises I.Unknown"""
        r = self.ip.apply(self.parse_fn, [[tok(name), tok("next")]])
        if not (isinstance(r, I.Enum) and r.variant == "Ok"):
            return None
        rest, sem = r.fields["0"]
        if not (isinstance(rest, list) and len(rest) == 1):
            return None
        return sem

    def hlsl(self, sem):
        """-> the text after ' : ' or None"""
        cell = {"o": ""}
        self.ip.apply(self.format_fn, [I.Enum("Option", "Some", {"0": sem}), I.Ref(cell, "o")])
        t = cell["o"]
        return t[3:] if t.startswith(" : ") else None

    def msl(self, sem):
        """-> (attribute name, argument) or a description of something else"""
        r = self.ip.apply(self.msl_fn, [I.Enum("Option", "Some", {"0": sem})])
        if not (isinstance(r, I.Enum) and r.variant == "Ok"):
            return ("refused", None)
        o = r.fields["0"]
        if not (isinstance(o, I.Enum) and o.variant == "Some"):
            return ("no attribute", None)
        a = o.fields["0"]
        nm = a.fields.get("name")
        args = a.fields.get("arguments")
        if not (isinstance(nm, list) and len(nm) == 1 and isinstance(args, list) and len(args) <= 1):
            return (repr(a)[:80], None)
        name = nm[0].fields.get("node")
        arg = None
        if args:
            e = args[0].fields.get("node")
            if isinstance(e, I.Enum) and e.variant == "Literal":
                arg = e.fields["0"].fields.get("0")
            elif isinstance(e, I.Enum) and e.variant == "Identifier":
                ids = e.fields["0"].fields.get("identifiers")
                arg = ids[0].fields.get("node") if isinstance(ids, list) and len(ids) == 1 else repr(e)[:60]
            else:
                arg = repr(e)[:60]
        return (name, arg)


def rule_hlsl(chk, prefix):
    """the HLSL text names the system value the source named (same spelling up to case; SV_Target is SV_Target0)"""
    ch = Chain(chk.facts)
    if not ch.parse_fn or not ch.format_fn:
        return      # the round-trip rules of C09 fail closed on these anchors
    where = _where(ch.format_fn)
    bad = None
    n = 0
    try:
        for name, (canon, _m, _a) in sorted(REFERENCE.items()):
            sem = ch.parse(name)
            out = ch.hlsl(sem) if sem is not None else None
            n += 1
            if (out is None or out.lower() != canon) and bad is None:
                bad = "a parameter written `: %s` is exported as `: %s`: the HLSL text names another system value" % (name, out)
    except I.Unknown as e:
        chk.note("%s: parse_semantic / format_semantic_annotation is not readable (%s); not decided" % (prefix, str(e)[:80]))
        return
    chk.ob(prefix + "/hlsl-name", bad is None, bad or "%d spellings: the exported semantic names the same system value" % n, where, sample={"spellings": n})


def rule_roundtrip(chk, prefix):
    """parse(format(parse(s))) == parse(s)"""
    ch = Chain(chk.facts)
    if not chk.anchor(prefix.split(".")[0] + ".anchor/parse_semantic", ch.parse_fn, "parse_semantic") or \
       not chk.anchor(prefix.split(".")[0] + ".anchor/format_semantic_annotation", ch.format_fn, "format_semantic_annotation"):
        return
    where = _where(ch.format_fn)
    bad = None
    n = 0
    try:
        for name in sorted(REFERENCE):
            sem = ch.parse(name)
            out = ch.hlsl(sem) if sem is not None else None
            back = ch.parse(out) if out else None
            n += 1
            if (sem is None or back != sem) and bad is None:
                bad = "`: %s` is read as %r, printed as `: %s` and read back as %r" % (name, sem, out, back)
    except I.Unknown as e:
        return chk.unreadable(prefix + "/round-trip", "parse_semantic / format_semantic_annotation", e, where)
    chk.ob(prefix + "/round-trip", bad is None, bad or "%d spellings: printing a semantic and reading it back gives the same semantic" % n, where, sample={"spellings": n})


def rule_msl(chk, prefix):
    """the Metal attribute supplies the quantity the HLSL system value names"""
    ch = Chain(chk.facts)
    if not chk.anchor(prefix.split(".")[0] + ".anchor/generate_semantic_annotation", ch.msl_fn, "msl generate_semantic_annotation"):
        return
    if not ch.parse_fn:
        return
    where = _where(ch.msl_fn)
    n = 0
    bad = []
    try:
        for name, (_c, attr, arg) in sorted(REFERENCE.items()):
            sem = ch.parse(name)
            if sem is None:
                continue
            got = ch.msl(sem)
            n += 1
            if got != (attr, arg):
                bad.append("`%s` is given the Metal attribute [[%s%s]], the quantity is supplied by [[%s%s]]" % (
                    name, got[0], "(%s)" % got[1] if got[1] is not None else "", attr, "(%s)" % arg if arg is not None else ""))
    except I.Unknown as e:
        return chk.unreadable(prefix + "/metal-attribute", "msl generate_semantic_annotation", e, where)
    chk.ob(prefix + "/metal-attribute", not bad, "; ".join(bad[:2]) + (" (%d of %d spellings)" % (len(bad), n) if bad else "") if bad else
           "%d spellings: each system value gets the Metal attribute that supplies the same quantity" % n, where, sample={"spellings": n})
    chk.floor(prefix.split(".")[0] + ".floor/semantic-spellings", n, 20, "semantic spellings read", where)
