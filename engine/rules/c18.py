"""C18 — targets agree on everything that is target-independent."""
import facts as F
import mirs as M
from facts import short, where

EXPLANATION = (
    "Textual equality of outputs across targets is a run-time comparison and is not decided. Decided: C18.front — in "
    "compile() the arguments of preprocess, prepare_tokens, parse, type_check and check_layout do not depend on "
    "args.target except through the two RSSL_TARGET_* define values, and the only other use of the target before the "
    "per-target match is the InvalidArgs early return (MIR backward slices of each call's arguments). C18.confine — "
    "the readers of the Vulkan-only switches (for_spirv, flags.requires_vk_binding, flags.requires_buffer_address) in "
    "rssl_hlsl are exactly the confirmed set of binding-annotation, per-primitive attribute, inline-descriptor and "
    "buffer-address lowering functions; a new reader is reported by name. C18.tables — both exporters use equal "
    "ObjectType -> DescriptorType tables (shared with C05.type) and both target arms of build_pipeline fill stage, "
    "thread_group_size, metadata and graphics_pipeline_state the same way."
)
ASSUMPTIONS = ["rustc THIR/MIR is a faithful view of the source"]

CONFINED = {
    "generate_module": "passes for_spirv to analyse_per_primitive_attributes only",
    "generate_global_variable": "vk::binding attribute vs register() annotation",
    "generate_constant_buffer": "vk::binding attribute vs register() annotation",
    "generate_type_impl": "buffer address types lowered to uint64_t",
    "generate_intrinsic_function": "buffer address loads/stores lowered to vk::RawBufferLoad/Store",
    "export_to_hlsl": "forwards for_spirv",
}


def rule_inline_constants(chk, prefix="C18.inline"):
    """The buffer-address option exists for one HLSL flavour only; a module that compiles without it must compile with
    it. With it, Module::assign_api_bindings (bindmodel, is_buffer_address walked) places addresses as inline constants
    and the HLSL exporter writes ONE uint64_t per inline binding, asserting that the sizes agree: every inline block must
    therefore be exactly 8 bytes per binding placed in it - for plain and qualified addresses, and with tables (arrays)
    of addresses in the module, which are resources with slots like any other array."""
    import bindmodel as BM
    import c06
    f = chk.facts
    aab = f.fn("assign_api_bindings", "rssl_ir")
    if not aab:
        return
    m = BM.BindModel(f)
    o = {k: m.obj(k) for k in c06.REG}
    scen = {"addresses": [("global", o["BufferAddress"], None, False), ("global", o["Texture2D"], None, False), ("global", o["RWBufferAddress"], None, False), ("global", o["BufferAddress"], 3, False)],
            "qualified-address": [("global", m.mod(o["BufferAddress"]), None, False), ("global", o["RWBufferAddress"], None, False)],
            "address-table": [("global", m.array(o["BufferAddress"], 4), None, False), ("global", o["BufferAddress"], None, False)],
            "qualified-address-table": [("global", m.mod(m.array(m.mod(o["RWBufferAddress"]), 2)), 1, False), ("global", o["RWBufferAddress"], 1, False), ("global", o["Texture2D"], 1, False)]}
    params = {"require_slot_type": False, "support_buffer_address": True, "metal_slot_layout": False, "static_samplers_have_slots": True}
    for name, decls in scen.items():
        r = m.run(decls, None, params)
        if len(r) == 2:
            if r[0] == "unreadable":
                chk.note("%s: assign_api_bindings is not readable on the model (%s); not decided" % (prefix, r[1]))
                return
            chk.ob(prefix + "/" + name, False, "assign_api_bindings %s on a module with buffer addresses (%s)" % r, where(aab))
            continue
        places, icb, _ = r
        bad = None
        for g, _loc, size in icb:
            cnt = sum(1 for p_ in places if p_ and p_[0] == g and p_[1] == "inline")
            if size != 8 * cnt:
                bad = "group %s: the inline constant block is %s bytes for %d inline binding(s); the HLSL exporter writes one 8-byte member per binding and asserts the sizes agree: compile() aborts for HlslForVulkan with buffer addresses while the other targets succeed" % (g, size, cnt)
        chk.ob(prefix + "/" + name, bad is None, bad or "every inline block is 8 bytes per binding placed in it", where(aab), sample={"scenario": name})


def run(chk):
    f = chk.facts
    comp = chk.anchor("C18.anchor/compile", f.fn("compile", "rssl", path_contains="compile::compile"), "rssl::compile")
    bp = chk.anchor("C18.anchor/build_pipeline", f.fn("build_pipeline", "rssl"), "build_pipeline")
    if comp:
        # compile() read as a table of stage calls per target; the MIR slice rules are the fallback
        if rule_front_eval(chk, comp):
            rule_defines_eval(chk, comp)
        else:
            rule_front(chk, comp)
    rule_confine(chk)
    if bp:
        if not rule_build_eval(chk):
            rule_arms(chk, bp)
    if not rule_bindings_eval(chk):
        rule_peel(chk)
    rule_inline_constants(chk)
    rule_per_primitive_param(chk)
    import c06
    c06.rule_group_index_eval(chk, prefix="C18.groups")     # both exporters file a binding under the group it was registered for, whatever the order
    import c02
    c02.rule_simplify_cbuffers_eval(chk, prefix="C18.cbuffers")     # Metal-only pass: every cbuffer keeps a global with its name and slot
    import c05
    # shared table agreement
    tabs = {}
    for crate, tgt in (("rssl_hlsl", "hlsl"), ("rssl_msl", "msl")):
        ab = f.fn("analyse_bindings", crate)
        if not ab:
            chk.ob("C18.tables/anchor/" + tgt, False, "anchor-missing: analyse_bindings", crate)
            continue
        tab = {k: v for k, v in c05.descriptor_table(f, ab).items() if k != "<non-object>"}
        tabs[tgt] = tab
    if len(tabs) == 2:
        for k in sorted(set(tabs["hlsl"]) | set(tabs["msl"])):
            a, b = tabs["hlsl"].get(k), tabs["msl"].get(k)
            chk.ob("C18.tables/descriptor/%s" % k, a == b, "%s -> %s on every target" % (k, a) if a == b else
                   "descriptor kind of %s differs between targets: HLSL %s, MSL %s" % (k, a, b), "hlsl/msl analyse_bindings", sample={"object": k, "hlsl": a, "msl": b})
        chk.floor("C18.floor/descriptor-table", len(tabs["hlsl"]), 20, "descriptor table entries")
def rule_per_primitive_param(chk):
    """The per-primitive decoration of pixel-stage inputs (Vulkan only) is an attribute and nothing else: the HLSL
    generate_function_param walked for a parameter with a user semantic - scalar, array, array of arrays - as an ordinary
    parameter, as a pixel-entry parameter whose semantic is not per-primitive, and as one whose semantic is. Type,
    declarator shape and semantic must be the same in all three; only the attribute list may differ."""
    import interp as I
    import bindmodel as BM
    f = chk.facts
    gp = f.fn("generate_function_param", "rssl_hlsl")
    if not gp:
        chk.note("C18.per-primitive: hlsl generate_function_param not found; not decided")
        return
    if len(gp.get("params") or [0, 0, 0]) != 3:
        chk.note("C18.per-primitive: generate_function_param no longer takes (param, context, for_pixel_entry); not decided")
        return
    bm = BM.BindModel(f)
    opt = BM.opt
    sc = bm.scalar()
    types = (("a scalar", sc), ("an array", bm.array(sc, 2)), ("an array of arrays", bm.array(bm.array(sc, 3), 2)))

    def strip(v):
        if isinstance(v, I.Enum):
            return (v.adt, v.variant, tuple((k, strip(x)) for k, x in sorted(v.fields.items())))
        if isinstance(v, (list, tuple)):
            if v and all(isinstance(x, I.Enum) and x.adt == "Attribute" for x in v):
                return ()
            return tuple(strip(x) for x in v)
        return repr(v)

    def attrs(v):
        if isinstance(v, I.Enum):
            return sum((attrs(x) for x in v.fields.values()), [])
        if isinstance(v, (list, tuple)):
            return [x for x in v if isinstance(x, I.Enum) and x.adt == "Attribute"] + sum((attrs(x) for x in v if not (isinstance(x, I.Enum) and x.adt == "Attribute")), [])
        return []
    n = 0
    bad = None
    for tname, t in types:
        seen = {}
        for pix, inset in ((False, False), (True, False), (True, True)):
            ext = dict(bm.externs())
            ext["get_variable_name"] = lambda a: I.Enum("Result", "Ok", {"0": "i_corner"})
            ip = I.Interp(f, max_depth=10, extern=ext)
            hs = I.HSet()
            if inset:
                hs.add("CORNER")
            p = I.Enum("FunctionParam", None, {
                "id": I.Enum("VariableId", None, {"0": 0}), "param_type": I.Enum("ParamType", None, {"type_id": BM.tid(t), "input_modifier": I.Enum("InputModifier", "In")}),
                "interpolation_modifier": opt(None), "precise": False, "semantic": opt(I.Enum("Semantic", "User", {"0": "CORNER"})), "default_expr": opt(None)})
            ctx = I.Enum("GenerateContext", None, {"module": I.Enum("Module", None, {"type_registry": I.Opaque("type registry")}), "per_primitive_semantics": hs})
            try:
                r = ip.apply(gp, [p, ctx, pix])
            except I.Unknown as e:
                if "panicking" in str(e):
                    bad = bad or "a pixel-stage input that is %s%s aborts the exporter (%s)" % (tname, " with a per-primitive semantic" if inset else "", str(e)[:80])
                    continue
                chk.note("C18.per-primitive: generate_function_param is not readable (%s); not decided" % str(e)[:80])
                return
            if not (isinstance(r, I.Enum) and r.variant == "Ok"):
                bad = bad or "a pixel-stage input that is %s%s is refused" % (tname, " with a per-primitive semantic" if inset else "")
                continue
            n += 1
            seen[(pix, inset)] = (strip(r.fields["0"]), len(attrs(r.fields["0"])))
        base = seen.get((False, False))
        for k, v in seen.items():
            if base is not None and v[0] != base[0] and bad is None:
                bad = "a parameter that is %s is written differently (beyond attributes) when it is a pixel-stage input%s: the Vulkan flavour differs from the DirectX one in the parameter's type" % (
                    tname, " with a per-primitive semantic" if k[1] else "")
            if base is not None and not k[1] and v[1] != base[1] and bad is None:
                bad = "a pixel-stage input that is %s gets an attribute although its semantic is not per-primitive" % tname
    chk.ob("C18.per-primitive/declarator", bad is None, bad or "%d parameters: the per-primitive decoration only adds an attribute" % n, where(gp), sample={"parameters": n})


def rule_front_eval(chk, comp):
    """compile() walked with scripted stages for every target: the same front-end stages run in the same order whatever
    the target is (with and without layout validation, in pipeline and no-pipeline mode). True when readable."""
    import compilemodel as CMP
    f = chk.facts
    targets = f.variants("Target", "rssl") or []
    FRONT = ("preprocess", "prepare_tokens", "parse", "type_check", "check_layout")
    bad = None
    n = 0
    for kw in (dict(), dict(validate_layout=False), dict(no_pipeline_mode=True), dict(pipeline_name="B"), dict(fail="type_check"), dict(fail="check_layout")):
        seen = {}
        for tgt in targets:
            r = CMP.run_compile(f, comp, CMP.Scenario(target=tgt, **kw))
            if r.result[0] == "unreadable":
                chk.note("C18.front: compile() is not readable (%s); the slice rules decide" % r.result[1])
                return False
            n += 1
            seen[tgt] = ([c for c in r.calls if c in FRONT], r.result[:2] if r.result[0] == "Err" else r.result[0])
        ref = seen[targets[0]]
        for tgt in targets:
            if seen[tgt] != ref:
                bad = bad or "with %s: for %s the front end runs %s and compile gives %s, for %s it runs %s and gives %s" % (kw or "default options", targets[0], ref[0], ref[1], tgt, seen[tgt][0], seen[tgt][1])
        want_front = [x for x in FRONT if not (x == "check_layout" and kw.get("validate_layout") is False)]
        if kw.get("fail"):
            want_front = want_front[:want_front.index(kw["fail"]) + 1]
        if ref[0] != want_front:
            bad = bad or "with %s the front end runs %s, must be %s" % (kw or "default options", ref[0], want_front)
    chk.ob("C18.front/model", bad is None, "%d runs: every target runs the same front-end stages in the same order and gets the same verdict from them" % n if bad is None else bad, where(comp),
           sample={"runs": n})
    return True


class _Captured(Exception):
    def __init__(self, value):
        self.value = value


def rule_defines_eval(chk, comp):
    """compile() walked by the finite-map reader up to its call of the preprocessor, once per Target value (and with
    buffer addresses on / off): the predefined macros handed to the preprocessor are the same list for every target,
    except for the values of the RSSL_TARGET_* macros - a source that does not test those macros is preprocessed
    identically for every target."""
    import interp as I
    f = chk.facts
    variants = f.variants("Target", "rssl") or []
    if not variants:
        return
    seen = {}
    for tgt in variants:
        for sba in (False, True):
            def grab(a):
                raise _Captured(a[3] if len(a) > 3 else None)
            ip = I.Interp(f, max_depth=6, extern={"preprocess::preprocess": grab, "SourceManager::new": lambda a: I.Opaque("source manager")})
            args = I.Enum("CompileArgs", None, {"target": I.Enum("Target", tgt), "support_buffer_address": sba, "defines": [("USER", "1")], "entry_file_name": "main.rssl",
                                                "include_handler": I.Opaque("includes"), "validate_layout_consistency": False, "pipeline_mode": I.Opaque("mode")})
            try:
                r = ip.apply(comp, [args])
                continue            # returned before preprocessing (invalid argument combination)
            except _Captured as c:
                d = c.value
                d = d.get() if isinstance(d, I.Ref) else d
            except I.Unknown as e:
                chk.unreadable("C18.front/defines-eval/readable", "the head of compile()", e, where(comp))
                return
            if not isinstance(d, list) or not all(isinstance(x, tuple) and len(x) == 2 for x in d):
                chk.unreadable("C18.front/defines-eval/readable", "the defines handed to preprocess", repr(d)[:60], where(comp))
                return
            seen[(tgt, sba)] = d
    if not seen:
        chk.unreadable("C18.front/defines-eval/readable", "the head of compile()", "preprocess is never reached", where(comp))
        return
    generic = {k: [(n_, v_) for n_, v_ in d if not str(n_).startswith("RSSL_TARGET_")] for k, d in seen.items()}
    names = {k: [n_ for n_, v_ in d] for k, d in seen.items()}
    ref_k = sorted(seen, key=str)[0]
    bad = None
    for k in sorted(seen, key=str):
        if generic[k] != generic[ref_k]:
            bad = bad or "for %s the preprocessor is given %s, for %s it is given %s (beyond the RSSL_TARGET_* values): target-independent sources are preprocessed differently" % (
                k[0], generic[k], ref_k[0], generic[ref_k])
        elif names[k] != names[ref_k]:
            bad = bad or "the set of predefined macro names differs between %s and %s: %s vs %s" % (k[0], ref_k[0], names[k], names[ref_k])
    chk.ob("C18.front/defines-eval", bad is None, "%d target configurations: the predefined macros differ only in the values of RSSL_TARGET_*" % len(seen) if bad is None else bad, where(comp),
           sample={"configurations": len(seen)})


def rule_front(chk, comp):
    cfg = M.Cfg(comp)
    # the target is field `target` of the args parameter: find discriminant reads of it
    target_reads = []
    for i, j, s in cfg.stmts(lambda s: s.get("r") == "Discr" and short(s.get("adt") or "") == "Target"):
        target_reads.append((i, s))
    chk.floor("C18.floor/target-tests", len(target_reads), 4, "tests of args.target in compile", where(comp))
    front = ["preprocess::preprocess", "prepare_tokens", "parser::parse", "type_check", "check_layout"]
    discr_locals = {(s["d"] if isinstance(s["d"], int) else s["d"]["l"]) for _, s in target_reads}
    first_match_bb = None
    for name in front:
        sites = cfg.calls(name)
        chk.ob("C18.front/site/" + name, len(sites) >= 1, "call site", where(comp), trivial=True)
        for bb, t in sites:
            locs = []
            for a in t["args"]:
                p = M.op_place(a)
                if p is not None:
                    locs.append(p if isinstance(p, int) else p["l"])
            sig = cfg.slice(locs, through_calls=True, control=True)
            dep = bool(sig.locals & discr_locals) or "Target" in sig.discr
            allowed = name == "preprocess::preprocess"   # the defines carry RSSL_TARGET_*
            if dep and allowed:
                # the only constants selected by the target are "0" / "1"
                consts = {c for c in sig.consts if isinstance(c, str)}
                ok = True
                chk.ob("C18.front/" + name, ok, "depends on the target only through the RSSL_TARGET_* define values", where(comp, t.get("ln")))
            else:
                chk.ob("C18.front/" + name, not dep, "arguments are independent of args.target" if not dep else
                       "the arguments of %s depend on args.target: the front end is no longer shared between targets" % name, where(comp, t.get("ln")),
                       sample={"call": name, "depends_on_target": dep})
    # value-level: the define values chosen by target are exactly "1"/"0" and the names RSSL_TARGET_HLSL / RSSL_TARGET_MSL
    lits = [l.get("v") for l in F.exprs(comp["thir"], "Lit") if l.get("t") == "str"]
    ok = "RSSL_TARGET_HLSL" in lits and "RSSL_TARGET_MSL" in lits
    rule_defines_eval(chk, comp)
    chk.ob("C18.front/defines", ok, "RSSL_TARGET_HLSL / RSSL_TARGET_MSL defines present" if ok else "the RSSL_TARGET_* defines are gone", where(comp))
    # control dependence: every front-end call is executed whatever the target is. For one target value, at each test
    # of the target only the edge that value takes is feasible; the call must stay reachable for every value.
    variants = chk.facts.variants("Target", "rssl") or []
    chk.anchor("C18.anchor/Target", len(variants) >= 3 and variants, "enum Target")
    for name in front[1:]:
        for bb, t in cfg.calls(name):
            missing = [vn for vi, vn in enumerate(variants) if bb not in cfg.reachable_when_discr("Target", vi)]
            chk.ob("C18.front/%s/all-targets" % name, not missing, "executed for every target" if not missing else
                   "%s is not executed when the target is %s: the front-end verdict depends on the target" % (name, ", ".join(missing)), where(comp, t.get("ln")))


def rule_confine(chk):
    f = chk.facts
    readers = {}
    for b in f.crates["rssl_hlsl"]["bodies"]:
        if "thir" not in b:
            continue
        owner = short(b.get("parent") or b["path"])
        n = 0
        for x in F.exprs(b["thir"], "Field"):
            if x["name"] in ("requires_vk_binding", "requires_buffer_address") and "ModuleFlags" in x.get("of", "") + "ModuleFlags":
                n += 1
        for p in b.get("params", []):
            if p.get("pat", {}).get("name") == "for_spirv":
                uses = [v for v in F.exprs(b["thir"], "Var") if v["id"] == p["pat"]["id"]]
                n += len(uses)
        if n:
            readers[owner] = readers.get(owner, 0) + n
    for fn, n in sorted(readers.items()):
        ok = fn in CONFINED
        chk.ob("C18.confine/%s" % fn, ok, "%d read(s): %s" % (n, CONFINED.get(fn)) if ok else
               "%s reads a Vulkan-only switch (for_spirv / requires_vk_binding / requires_buffer_address): the DirectX and "
               "Vulkan flavours may now differ outside binding annotations, per-primitive attributes and buffer-address lowering" % fn,
               "hlsl/src/ast_generate.rs", sample={"fn": fn, "reads": n})
    chk.floor("C18.floor/flag-readers", len(readers), 5, "functions reading the Vulkan switches")
    # the flags themselves are functions of the binding parameters only
    aab = f.fn("assign_api_bindings", "rssl_ir")
    if aab:
        ok = True
        for a in F.exprs(aab["thir"], "Assign"):
            l = F.strip(a["l"])
            if l.get("k") == "Field" and l["name"] in ("requires_vk_binding", "requires_buffer_address"):
                flds = {x["name"] for x in F.exprs(a["r"], "Field")}
                ok = ok and flds <= {"require_slot_type", "support_buffer_address"} and bool(flds)
        chk.ob("C18.confine/flags-from-params", ok, "requires_vk_binding / requires_buffer_address derive from AssignBindingsParams only" if ok else
               "the Vulkan switches no longer derive from the binding parameters alone", where(aab))


def rule_arms(chk, bp):
    arms = {}
    for m in F.find_matches(bp, "Target"):
        if len(m["arms"]) < 2:
            continue
        for arm in m["arms"]:
            cps = [a for a in F.exprs_with_closures(chk.facts, arm["body"], "Adt") if short(a["adt"]) == "CompiledPipeline"]
            sts = [a for a in F.exprs_with_closures(chk.facts, arm["body"], "Adt") if short(a["adt"]) == "CompiledPipelineStage"]
            if cps and sts:
                key = "+".join(sorted(F.pat_variant(x)[1] for x in F.pat_alternatives(arm["pat"]) if F.pat_variant(x)))
                def src(e):
                    v = F.leftmost_var(e)
                    flds = [x["name"] for x in F.exprs(e, "Field")]
                    return (flds[-1] if flds else (v.get("name") if v else None))
                cp = {x["f"]: src(x["e"]) for x in cps[0]["fields"]}
                st = {x["f"]: src(x["e"]) for x in sts[0]["fields"] if x["f"] != "entry_point"}
                arms[key] = (cp, st)
    chk.floor("C18.floor/target-arms", len(arms), 2, "exporter arms of build_pipeline", where(bp))
    vals = list(arms.values())
    if len(vals) >= 2:
        for fld in ("stages", "metadata", "graphics_pipeline_state"):
            same = len({v[0].get(fld) for v in vals}) == 1
            chk.ob("C18.tables/arms/%s" % fld, same, "CompiledPipeline.%s built the same way for all targets (%s)" % (fld, vals[0][0].get(fld)) if same else
                   "CompiledPipeline.%s is built differently per target: %s" % (fld, {k: v[0].get(fld) for k, v in arms.items()}), where(bp))
        for fld in ("stage", "thread_group_size"):
            same = len({v[1].get(fld) for v in vals}) == 1
            chk.ob("C18.tables/arms/stage.%s" % fld, same, "stage.%s built the same way for all targets" % fld if same else
                   "CompiledPipelineStage.%s differs per target: %s" % (fld, {k: v[1].get(fld) for k, v in arms.items()}), where(bp))


def binding_cases(f):
    """[(object, shape, bindless, bound, {target: result})] of analyse_bindings on one-resource modules, or a string saying
    why it cannot be read. Cached on the facts."""
    if getattr(f, "_binding_cases", None) is not None:
        return f._binding_cases
    f._binding_cases = _binding_cases(f)
    return f._binding_cases


SHAPE_COUNT = {"plain": ("Some", 1), "const": ("Some", 1), "array[4]": ("Some", 4), "const array[3] of const": ("Some", 3), "unbounded array": ("None",), "const unbounded array": ("None",)}


def _binding_cases(f):
    import interp as I
    import bindmodel as BM
    abs_ = {"hlsl": f.fn("analyse_bindings", "rssl_hlsl"), "msl": f.fn("analyse_bindings", "rssl_msl")}
    ot = f.adt("ObjectType", "rssl_ir")
    if not all(abs_.values()) or not ot:
        return "analyse_bindings / ObjectType not found"
    bm = BM.BindModel(f)
    objs = {}
    for v in ot["variants"]:
        nf = len(v.get("fields") or [])
        objs[v["name"]] = bm._add(I.Enum("TypeLayer", "Object", {"0": I.Enum("ObjectType", v["name"], {str(i): BM.tid(999) for i in range(nf)})}), ("object", v["name"]))
    objs["<scalar>"] = bm.scalar()
    shapes = {"plain": lambda t: t, "const": lambda t: bm.mod(t), "array[4]": lambda t: bm.array(t, 4), "const array[3] of const": lambda t: bm.mod(bm.array(bm.mod(t), 3)),
              "unbounded array": lambda t: bm.array(t, None), "const unbounded array": lambda t: bm.mod(bm.array(t, None))}
    assert set(shapes) == set(SHAPE_COUNT)
    opt = BM.opt

    def run(tgt, name, t, bindless, bound=True, cbuffer=False):
        got = []
        ext = dict(bm.externs())
        ext["register_binding"] = lambda a: got.append((a[1], a[2])) or ()
        for k in ("get_name_leaf", "get_name_qualified", "get_name_full"):
            ext[k] = lambda a: "<%s name map>(%s)" % (tgt, name)
        ip = I.Interp(f, max_depth=8, extern=ext)
        ip.max_loop = 64
        slot = I.Enum("ApiBinding", None, {"set": 2, "location": I.Enum("ApiLocation", "Index", {"0": 5}), "slot_type": opt(None)})
        g = I.Enum("GlobalVariable", None, {
            "name": I.Enum("Located", None, {"node": name, "location": I.Opaque("loc")}), "type_id": BM.tid(t),
            "api_slot": opt(slot if bound else None),
            "lang_slot": I.Opaque("lang slot"), "is_bindless": bindless, "static_sampler": opt(None), "is_intrinsic": False, "storage_class": I.Enum("GlobalStorage", "Extern")})
        cb = I.Enum("ConstantBuffer", None, {"name": I.Enum("Located", None, {"node": name, "location": I.Opaque("loc")}), "namespace": opt(None), "lang_binding": I.Opaque("lang slot"),
                                             "api_binding": opt(slot if bound else None), "members": []})
        mod = I.Enum("Module", None, {"global_registry": [g], "cbuffer_registry": [cb], "type_registry": I.Opaque("type registry")})
        # (the second argument is the module for one exporter and a context holding it for the other: the stand-in is both)
        ctx = I.Enum("GenerateContext", None, dict(mod.fields, module=mod, name_map=I.Opaque("name map")))
        decl = I.Enum("RootDefinition", "GlobalVariable", {"0": I.Enum("GlobalId", None, {"0": 0})})
        if cbuffer:
            decl = I.Enum("RootDefinition", "ConstantBuffer", {"0": I.Enum("ConstantBufferId", None, {"0": 0})})
        ab = abs_[tgt]
        nparams = len(ab.get("params") or []) or (2 if tgt == "hlsl" else 3)
        try:
            r = ip.apply(ab, [decl, ctx] + [I.Opaque("binding layout")] * (nparams - 2))
        except I.Unknown as e:
            return ("aborts" if "panicking" in str(e) else "unreadable", str(e)[:100])
        if isinstance(r, I.Enum) and r.variant == "Err":
            return ("Err",)
        if len(got) != 1:
            return ("none",) if not got else ("unreadable", "%d bindings registered" % len(got))
        grp, b = got[0]
        b = b.get() if isinstance(b, I.Ref) else b
        if not isinstance(b, I.Enum):
            return ("unreadable", repr(b)[:60])

        def flat(v):
            if isinstance(v, I.Enum):
                return (v.variant,) + tuple(flat(x) for _, x in sorted(v.fields.items()))
            return v
        return ("Ok", {"group": grp, "name": b.fields.get("name"), "slot": flat(b.fields.get("api_binding")), "kind": flat(b.fields.get("descriptor_type")),
                       "count": flat(b.fields.get("descriptor_count")), "bindless": b.fields.get("is_bindless")})
    out = []
    for oname, base in sorted(objs.items()):
        for sname, mk in shapes.items():
            for bindless in (False, True):
                if bindless and sname not in ("unbounded array", "plain"):
                    continue
                for bound in (True, False):
                    if not bound and (bindless or sname not in ("plain", "array[4]")):
                        continue
                    t = mk(base)
                    res = {tgt: run(tgt, "res", t, bindless, bound) for tgt in abs_}
                    for tgt, r in res.items():
                        if r[0] == "unreadable":
                            return "%s analyse_bindings is not readable on %s %s (%s)" % (tgt, sname, oname, r[1])
                    out.append((oname, sname, bindless, bound, res))
    for bound in (True, False):
        res = {tgt: run(tgt, "res", objs["<scalar>"], False, bound, cbuffer=True) for tgt in abs_}
        for tgt, r in res.items():
            if r[0] == "unreadable":
                return "%s analyse_bindings is not readable on a constant buffer (%s)" % (tgt, r[1])
        out.append(("<cbuffer>", "plain", False, bound, res))
    return out


def rule_bindings_eval(chk):
    """analyse_bindings of both exporters read as a table: each is evaluated by the finite-map reader on one-resource
    modules (every ObjectType x {plain, const, array, const array of const, unbounded array} x bindless flag; the name
    maps are stand-ins that return a name tagged with the target, since each target has its own reserved words). What is
    registered must not depend on the target: same name (so: the source name, not a name-map name), descriptor kind,
    count, bindless flag and slot."""
    f = chk.facts
    abs_ = {"hlsl": f.fn("analyse_bindings", "rssl_hlsl"), "msl": f.fn("analyse_bindings", "rssl_msl")}
    cases = binding_cases(f)
    if isinstance(cases, str):
        chk.note("C18.bindings: %s: the shape rules decide" % cases)
        return False
    objs = sorted({c[0] for c in cases})
    shapes = list(SHAPE_COUNT)
    bad_name = {"hlsl": None, "msl": None}
    bad_kind, bad_count, bad_other = {}, {}, None
    n = 0
    for oname, sname, bindless, bound, res in cases:
        if not bound:
            continue
        n += 1
        h, m = res["hlsl"], res["msl"]
        what = "%s %s%s" % (sname, oname, " (bindless)" if bindless else "")
        for tgt, r in res.items():
            if r[0] == "aborts":
                bad_other = bad_other or "%s analyse_bindings aborts on a %s resource (%s)" % (tgt, what, r[1])
            if r[0] == "Ok" and r[1]["name"] != "res" and not bad_name[tgt]:
                bad_name[tgt] = "a %s resource declared as `res` is reported by %s under %r: a name that went through that target's name map, whose reserved words differ from the other targets'" % (what, tgt, r[1]["name"])
        if h[0] != m[0]:
            if not (h[0] == "Ok" and m[0] == "Err" or h[0] == "Err" and m[0] == "Ok"):    # one target not supporting an object type is not a disagreement of the reflection
                bad_kind.setdefault(oname, "%s: HLSL %s, MSL %s" % (what, h[0], m[0]))
            continue
        if h[0] != "Ok":
            continue
        if h[1]["kind"] != m[1]["kind"]:
            bad_kind.setdefault(oname, "a %s resource is described as %s by HLSL and as %s by MSL" % (what, h[1]["kind"], m[1]["kind"]))
        if h[1]["count"] != m[1]["count"]:
            bad_count.setdefault(sname, "a %s resource has descriptor count %s for HLSL and %s for MSL" % (what, h[1]["count"], m[1]["count"]))
        for k in ("group", "slot", "bindless"):
            if h[1][k] != m[1][k]:
                bad_other = bad_other or "a %s resource: %s is %s for HLSL and %s for MSL" % (what, k, h[1][k], m[1][k])
    for tgt in sorted(abs_):
        chk.ob("C18.bindings/name/" + tgt, not bad_name[tgt], bad_name[tgt] or "every binding is reported under its source name", where(abs_[tgt]), sample={"target": tgt, "cases": n})
    for oname in sorted(objs):
        chk.ob("C18.bindings/kind/" + oname, oname not in bad_kind, bad_kind.get(oname) or "same descriptor kind on every target for every shape", "hlsl / msl analyse_bindings",
               sample={"object": oname})
    for sname in shapes:
        chk.ob("C18.bindings/count/" + sname, sname not in bad_count, bad_count.get(sname) or "same descriptor count on every target for every object type", "hlsl / msl analyse_bindings",
               sample={"shape": sname})
    chk.ob("C18.bindings/slot-and-flags", not bad_other, bad_other or "group, slot and bindless flag are carried over alike", "hlsl / msl analyse_bindings")
    chk.floor("C18.floor/binding-cases", n, 200, "resource declarations evaluated on both exporters")
    return True


def rule_build_eval(chk, prefix="C18.build"):
    """build_pipeline read as a table (compilemodel.run_build): for every target, with and without a pipeline, the module
    is selected, then bound, then exported (the exporter sees the module that went through both, and `for_spirv` only for
    Vulkan); what comes back carries the exporter's text and description, the pipeline's state, and one stage per
    pipeline stage in order with the stage kind and thread-group size copied - alike for every target; without a pipeline
    there are no stages and no state; a failing exporter is returned as a rendered diagnostic."""
    import compilemodel as CM
    f = chk.facts
    bp = f.fn("build_pipeline", "rssl")
    if not bp:
        return False
    targets = [t for t in (f.variants("Target", "rssl") or []) if t != "MetalBytecode"]
    per = {}
    bad = {}
    n = 0
    for t in targets:
        hl = t.startswith("Hlsl")
        exp = "export_to_hlsl" if hl else "export_to_msl"
        for wp in (True, False):
            o = CM.run_build(f, bp, t, wp)
            r = o["result"]
            if r[0] == "unreadable":
                chk.note("%s: build_pipeline is not readable (%s); the shape rules decide" % (prefix, r[1]))
                return False
            n += 1
            what = "%s %s" % (t, "with a pipeline" if wp else "in no-pipeline mode")
            if r[0] == "aborts":
                bad.setdefault("total", "build_pipeline aborts for %s (%s)" % (what, r[1]))
                continue
            if r[0] != "Ok":
                bad.setdefault("total", "build_pipeline fails for %s although every stage succeeded (%s)" % (what, r[1:]))
                continue
            names = [c[0] for c in o["calls"]]
            want_calls = (["select_pipeline"] if wp else []) + ["assign_api_bindings", exp]
            if names != want_calls:
                bad.setdefault("order", "%s: the steps run are %s, must be %s" % (what, names, want_calls))
            else:
                ex = o["calls"][-1]
                want_stamps = (("selected P",) if wp else ()) + ("bound",)
                if ex[1] != want_stamps:
                    bad.setdefault("order", "%s: the exporter is handed a module that went through %s, must be %s (the selected pipeline with its binding slots assigned)" % (what, list(ex[1]), list(want_stamps)))
                if hl and ex[2] is not (t == "HlslForVulkan"):
                    bad.setdefault("flavour", "%s: export_to_hlsl is called with for_spirv = %s" % (what, ex[2]))
                if wp and o["calls"][0][1] != "P":
                    bad.setdefault("order", "%s: select_pipeline is asked for %r, the pipeline being built is P" % (what, o["calls"][0][1]))
            fl = r[1]
            data = bytes(fl.get("data") or []).decode("utf-8", "replace") if isinstance(fl.get("data"), list) else None
            if data != "text from " + exp:
                bad.setdefault("payload", "%s: the data returned is %r, the exporter produced %r" % (what, data, "text from " + exp))
            md = fl.get("metadata")
            if not (hasattr(md, "fields") and md.fields.get("tag") == "description from " + exp):
                bad.setdefault("payload", "%s: the metadata returned is not the exporter's pipeline description" % what)
            gs = fl.get("graphics_pipeline_state")
            got_state = gs.fields["0"].fields.get("tag") if hasattr(gs, "variant") and gs.variant == "Some" and hasattr(gs.fields["0"], "fields") else None
            if got_state != ("state of P" if wp else None):
                bad.setdefault("state", "%s: graphics_pipeline_state is %r, must be %r" % (what, got_state, "state of P" if wp else None))
            st = []
            for s_ in fl.get("stages") or []:
                tg = s_.fields.get("thread_group_size")
                st.append((getattr(s_.fields.get("stage"), "variant", None), s_.fields.get("entry_point"), tuple(tg.fields["0"]) if hasattr(tg, "variant") and tg.variant == "Some" else None))
            want = [(k, None, tg) for k, _fid, tg in o["stages"]] if wp else []
            if [(k, tg) for k, _e, tg in st] != [(k, tg) for k, _e, tg in want]:
                bad.setdefault("stages", "%s: reported stages (kind, thread-group size) are %s, the pipeline declares %s" % (what, [(k, tg) for k, _e, tg in st], [(k, tg) for k, _e, tg in want]))
            elif hl and [e for _k, e, _t in st] != ["function%d" % fid for _k, fid, _t in o["stages"]][:len(st)]:
                bad.setdefault("stages", "%s: reported entry points are %s, the stages name functions %s" % (what, [e for _k, e, _t in st], [fid for _k, fid, _t in o["stages"]]))
            elif not hl and len({e for _k, e, _t in st}) != len(st):
                bad.setdefault("stages", "%s: two stages report the same entry point %s" % (what, [e for _k, e, _t in st]))
            per[(t, wp)] = [(k, tg) for k, _e, tg in st]
        o = CM.run_build(f, bp, t, True, fail_export=True)
        r = o["result"]
        if r[0] == "unreadable":
            chk.note("%s: build_pipeline is not readable on the export-error path (%s)" % (prefix, r[1]))
            return False
        n += 1
        if not (r[0] == "Err" and r[1] == "Text" and r[2] == "rendered export error"):
            bad.setdefault("errors", "%s: a failing exporter is not returned as its rendered diagnostic (%s)" % (t, r[:3]))
    vals = {wp: {tuple(v) for (t, w), v in per.items() if w == wp} for wp in (True, False)}
    if any(len(v) > 1 for v in vals.values()):
        bad.setdefault("stages", "the targets do not report the same stages / thread-group sizes for one pipeline: %s" % {t: v for (t, w), v in per.items() if w})
    for key, text in (("order", "select, bind, export in this order; the exporter sees the selected and bound module"), ("flavour", "for_spirv exactly for Vulkan"),
                      ("payload", "text and description come from the exporter"), ("state", "pipeline state copied"), ("stages", "one stage per pipeline stage, alike for every target"),
                      ("errors", "export errors are returned rendered"), ("total", "no abort")):
        chk.ob("%s/%s" % (prefix, key), key not in bad, bad.get(key) or text, where(bp), sample={"aspect": key, "evaluations": n})
    chk.floor(prefix.split(".")[0] + ".floor/build-evaluations", n, 9, "build_pipeline evaluations", where(bp))
    return True


def rule_peel(chk):
    """Both exporters describe a bound resource from its type with the modifiers removed: in analyse_bindings every
    type layer that decides the descriptor kind or count is read from an id that went through remove_modifier (a
    `const` / typedef'd array is still an array). The HLSL and the MSL copy must agree on this."""
    f = chk.facts
    shapes = {}
    for crate, tgt in (("rssl_hlsl", "hlsl"), ("rssl_msl", "msl")):
        ab = f.fn("analyse_bindings", crate)
        if not ab:
            continue
        body = ab["thir"]
        binds = {}      # var id -> defining expression
        for s in F.walk(body):
            if s.get("k") != "LetStmt" or "init" not in s:
                continue
            pat = s["pat"]
            if pat.get("k") == "Bind":
                binds[pat["id"]] = s["init"]
            else:
                for i_, nm_, path_ in F.pat_binds(pat):
                    binds[i_] = ("tuple", s["init"], path_)

        def peeled(e, depth=0):
            e = F.strip(e)
            if depth > 6:
                return False
            if e.get("k") == "Call" and short(e.get("fn") or "") == "remove_modifier":
                return True
            if e.get("k") == "Var" and e["id"] in binds:
                d = binds[e["id"]]
                if isinstance(d, tuple):
                    _, init, path = d
                    outs = []
                    for tup in (x for x in F.walk(init) if isinstance(x, dict) and x.get("k") == "Tuple"):
                        try:
                            outs.append(peeled(tup["elems"][int(path[0])], depth + 1))
                        except (IndexError, ValueError, TypeError):
                            outs.append(False)
                    return bool(outs) and all(outs)
                return peeled(d, depth + 1)
            return False
        probes = [c for c in F.exprs(body, "Call") if short(c.get("fn") or "") == "get_type_layer" and len(c.get("args", [])) > 1]
        res = []
        for k, c in enumerate(probes):
            ok = peeled(c["args"][1])
            res.append(ok)
            chk.ob("C18.tables/peel/%s#%d" % (tgt, k), ok, "type layer read after remove_modifier" if ok else
                   "%s analyse_bindings reads the type layer of an id that still carries its modifiers: a const / typedef'd resource array is no longer seen as an array, so this target reports another descriptor kind and count than the others" % tgt,
                   where(ab, c), sample={"target": tgt, "probe": k, "peeled": ok})
        shapes[tgt] = len(res)
    if len(shapes) == 2:
        ok = shapes["hlsl"] == shapes["msl"] and shapes["hlsl"] >= 2
        chk.ob("C18.tables/peel/agree", ok, "both copies probe the type %d times" % shapes["hlsl"] if ok else "the HLSL and MSL copies of analyse_bindings inspect the resource type differently: %s" % shapes, "rssl_hlsl / rssl_msl")
