"""Literals read as tables: the exporters' generate_literal (ir::Constant -> ast expression) and the typer's
parse_literal (ast::Literal -> ir::Constant), walked by the finite-map reader on every constant kind and a set of
payloads per kind (zero, small, negative, the ends of the range). Nothing of rssl is executed."""
import interp as I

INT_VALUES = {
    "IntLiteral": [0, 7, -5, 2 ** 63, -(2 ** 63), 2 ** 64 - 1, -(2 ** 64 - 1)],
    "Int32": [0, 9, -1, 2147483647, -2147483648],
    "UInt32": [0, 5, 2147483648, 4294967295],
    "Int64": [0, -3, 2 ** 63 - 1, -(2 ** 63)],
    "UInt64": [0, 2 ** 63, 2 ** 64 - 1],
}
FLOAT_VALUES = {"FloatLiteral": [0.0, 1.5, -2.25], "Float16": [0.0, 1.5, -0.5], "Float32": [0.0, 1.5, -2.25], "Float64": [0.0, 1.5, -2.25]}
VALUES = dict(INT_VALUES, Bool=[True, False], **FLOAT_VALUES)
# source literal kinds and payloads (what the parser can produce: magnitudes; a sign is a unary operator)
LITERALS = {"Bool": [True, False], "IntUntyped": [0, 7, 2 ** 31, 2 ** 63, 2 ** 64 - 1], "IntUnsigned32": [0, 5, 4294967295], "IntUnsigned64": [0, 2 ** 64 - 1], "IntSigned64": [0, 3, 2 ** 63 - 1],
            "FloatUntyped": [0.0, 1.5], "Float16": [0.0, 1.5], "Float32": [0.0, 1.5], "Float64": [0.0, 1.5]}


def _deref(v):
    return v.get() if isinstance(v, I.Ref) else v


def _node(v):
    v = _deref(v)
    while isinstance(v, I.Enum) and v.adt == "Located":
        v = _deref(v.fields["node"])
    return v


def read_expression(e):
    """ast expression -> ("lit", literal kind, payload, negated) or None"""
    e = _node(e)
    if isinstance(e, I.Enum) and e.variant == "Literal":
        l = _node(e.fields.get("0"))
        if isinstance(l, I.Enum) and l.adt == "Literal":
            p = l.fields.get("0")
            return ("lit", l.variant, float(p) if isinstance(p, float) else p, False)
    if isinstance(e, I.Enum) and e.variant == "UnaryOperation":
        op = _node(e.fields.get("0"))
        inner = read_expression(e.fields.get("1"))
        if isinstance(op, I.Enum) and op.variant == "Minus" and inner and not inner[3]:
            return ("lit", inner[1], inner[2], True)
    return None


def generate(f, gl, kind, value):
    """-> ("lit", K, payload, negated) | ("refused",) | ("aborts", why) | ("unreadable", why)"""
    ip = I.Interp(f, max_depth=8)
    try:
        r = ip.apply(gl, [I.Enum("Constant", kind, {"0": value}), I.Opaque("context")])
    except I.Unknown as e:
        return ("aborts" if "panicking" in str(e) else "unreadable", str(e)[:100])
    if isinstance(r, I.Enum) and r.variant == "Err":
        return ("refused",)
    if isinstance(r, I.Enum) and r.variant == "Ok":
        got = read_expression(r.fields.get("0"))
        if got:
            return got
    return ("unreadable", "result %r" % (r,))


def generate_table(f, crate):
    """{constant kind: [(value, outcome)]} or a string saying why generate_literal is not readable. Cached on the facts."""
    cache = f.__dict__.setdefault("_literal_tables", {})
    if crate in cache:
        return cache[crate]
    gl = f.fn("generate_literal", crate)
    cn = f.adt("Constant", "rssl_ir")
    if not gl or not cn:
        cache[crate] = "generate_literal / Constant not found"
        return cache[crate]
    have = {v["name"] for v in cn["variants"]}
    tab = {}
    for k, vals in VALUES.items():
        if k not in have:
            continue
        for v in vals:
            o = generate(f, gl, k, v)
            if o[0] == "unreadable":
                cache[crate] = "generate_literal is not readable on Constant::%s(%r) (%s)" % (k, v, o[1])
                return cache[crate]
            tab.setdefault(k, []).append((v, o))
    cache[crate] = tab
    return tab


def denotes(o):
    """the number a printed literal stands for"""
    _, k, p, neg = o
    if isinstance(p, bool) or p is None:
        return p
    return -p if neg else p


def parse(f, pl, kind, payload):
    """typer parse_literal -> ("const", kind, value) | ("refused",) | ("aborts"|"unreadable", why)"""
    ip = I.Interp(f, max_depth=6, extern={"Constant::get_type": lambda a: I.Opaque("type"), "get_type": lambda a: I.Opaque("type")})
    try:
        r = ip.apply(pl, [I.Enum("Literal", kind, {"0": payload}), I.Opaque("context")])
    except I.Unknown as e:
        return ("aborts" if "panicking" in str(e) else "unreadable", str(e)[:100])
    if isinstance(r, I.Enum) and r.variant == "Err":
        return ("refused",)
    if isinstance(r, I.Enum) and r.variant == "Ok":
        te = _node(r.fields.get("0"))
        ex = _node(te.fields.get("0")) if isinstance(te, I.Enum) else None
        c = _node(ex.fields.get("0")) if isinstance(ex, I.Enum) and ex.variant == "Literal" else None
        if isinstance(c, I.Enum) and c.adt == "Constant":
            return ("const", c.variant, c.fields.get("0"))
    return ("unreadable", "result %r" % (r,))
