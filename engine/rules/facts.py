"""Fact extraction and loading.

Facts are produced by engine/facts-driver (a rustc_private driver) injected with
RUSTC_WORKSPACE_WRAPPER under `cargo +nightly check --offline --workspace` in /repo.
Every run re-extracts from /repo's current working tree into a fresh scratch
directory (cargo's freshness cache would otherwise skip the wrapper).
"""
import json
import os
import shutil
import subprocess
import sys
import tempfile
import time

VERIF = os.path.dirname(os.path.dirname(os.path.dirname(os.path.abspath(__file__))))
REPO = os.environ.get("VERIF_REPO", "/repo")
DRIVER = os.path.join(VERIF, "engine", "facts-driver", "target", "release", "facts-driver")

EXPECTED_CRATES = [
    "metal_invoker", "rssl", "rssl_ast", "rssl_formatter", "rssl_hlsl", "rssl_ir",
    "rssl_msl", "rssl_parser", "rssl_preprocess", "rssl_text", "rssl_typer",
]


class ExtractionError(Exception):
    pass


def _nightly_sysroot():
    return subprocess.check_output(["rustc", "+nightly", "--print", "sysroot"], text=True).strip()


def build_driver():
    d = os.path.join(VERIF, "engine", "facts-driver")
    env = dict(os.environ, CARGO_NET_OFFLINE="true")
    subprocess.check_call(["cargo", "build", "--release", "--offline"], cwd=d, env=env)


def extract(repo=None, out_dir=None):
    """Run the driver over the workspace at `repo`; returns the directory with one
    <crate>.json per workspace crate. Fails closed if any crate is missing."""
    repo = repo or REPO
    if not os.path.exists(DRIVER):
        build_driver()
    scratch = tempfile.mkdtemp(prefix="rssl-facts-")
    out = out_dir or os.path.join(scratch, "facts")
    os.makedirs(out, exist_ok=True)
    tgt = os.path.join(scratch, "target")
    env = dict(os.environ)
    env.update({
        "LD_LIBRARY_PATH": _nightly_sysroot() + "/lib",
        "RUSTFLAGS": "-Zmir-opt-level=0 -Zno-steal-thir -Awarnings",
        "RUSTC_WORKSPACE_WRAPPER": DRIVER,
        "CARGO_TARGET_DIR": tgt,
        "FACTS_OUT": out,
        "CARGO_NET_OFFLINE": "true",
    })
    env.pop("RUSTC_WRAPPER", None)
    t0 = time.time()
    p = subprocess.run(["cargo", "+nightly", "check", "--offline", "--workspace"],
                       cwd=repo, env=env, stdout=subprocess.PIPE, stderr=subprocess.STDOUT, text=True)
    shutil.rmtree(tgt, ignore_errors=True)
    if p.returncode != 0:
        shutil.rmtree(scratch, ignore_errors=True)
        raise ExtractionError("cargo check under the facts driver failed:\n" + p.stdout[-4000:])
    missing = [c for c in EXPECTED_CRATES if not os.path.exists(os.path.join(out, c + ".json"))]
    if missing:
        shutil.rmtree(scratch, ignore_errors=True)
        raise ExtractionError("fact files missing for crates: %s" % missing)
    return out, scratch, time.time() - t0


NAME_TABLE = os.path.join(VERIF, "engine", "function_table.json")


def _call_edges(crates):
    """{callee path: {paths of the functions that call it}} (a closure's calls count for the function it sits in)"""
    edges = {}

    def walk_(n, owner):
        st = [n]
        while st:
            x = st.pop()
            if isinstance(x, dict):
                if x.get("k") == "Call" and isinstance(x.get("fn"), str):
                    edges.setdefault(x["fn"], set()).add(owner)
                    if isinstance(x.get("rfn"), str):
                        edges.setdefault(x["rfn"], set()).add(owner)
                if x.get("k") == "FnRef" and isinstance(x.get("fn"), str):
                    edges.setdefault(x["fn"], set()).add(owner)
                st.extend(x.values())
            elif isinstance(x, list):
                st.extend(x)
    for d in crates.values():
        for b in d["bodies"]:
            if "thir" in b:
                owner = b["path"]
                while "::{closure#" in owner:
                    owner = owner[:owner.rindex("::{closure#")]
                walk_(b["thir"], owner)
    return edges


def function_table(crates):
    """What bin/refresh_function_table freezes from the reference tree: every function, its arity, who calls it."""
    edges = _call_edges(crates)
    out = []
    for c, d in sorted(crates.items()):
        for b in d["bodies"]:
            if b["kind"] in ("Fn", "AssocFn"):
                out.append({"path": b["path"], "crate": c, "name": b["name"], "self_ty": b.get("self_ty"), "arity": len(b.get("params") or []), "callers": sorted(edges.get(b["path"], ()))})
    return out


def renamed_functions(crates):
    """{new path: old path}: a function of the reference tree (engine/function_table.json) that no longer exists under
    its name, while exactly one function that the reference tree does not know - same crate, same number of parameters -
    is now called from one of its former callers: a rename (or a move) of a private helper. The rules keep naming the
    function as the reference tree does; the facts are read with the old name put back. Anything less clear-cut is left
    alone and the rules that need the function fail closed."""
    try:
        with open(NAME_TABLE) as f:
            table = json.load(f)
    except (OSError, ValueError):
        return {}
    have = {}
    for c, d in crates.items():
        for b in d["bodies"]:
            if b["kind"] in ("Fn", "AssocFn"):
                have[b["path"]] = b
    known_paths = {t["path"] for t in table}
    known_names = {(t["crate"], t["name"], t.get("self_ty")) for t in table}
    have_names = {(b_["crate_"], b_["name"], b_.get("self_ty")) for b_ in ({**b, "crate_": c} for c, d in crates.items() for b in d["bodies"] if b["kind"] in ("Fn", "AssocFn"))}
    missing = [t for t in table if t["path"] not in have and (t["crate"], t["name"], t.get("self_ty")) not in have_names and t["callers"]]
    if not missing:
        return {}
    crate_of = {}
    for c, d in crates.items():
        for b in d["bodies"]:
            crate_of[b["path"]] = c
    new = [b for p, b in have.items() if p not in known_paths and (crate_of[p], b["name"], b.get("self_ty")) not in known_names]
    if not new:
        return {}
    edges = _call_edges(crates)
    out, claimed = {}, {}
    for t in missing:
        cands = [b for b in new if crate_of[b["path"]] == t["crate"] and len(b.get("params") or []) == t["arity"] and (b.get("self_ty") or None) == (t.get("self_ty") or None)
                 and edges.get(b["path"], set()) & set(t["callers"])]
        if len(cands) == 1:
            claimed.setdefault(cands[0]["path"], []).append(t["path"])
    for newp, olds in claimed.items():
        if len(olds) == 1:
            out[newp] = olds[0]
    return out


class Facts:
    def __init__(self, directory):
        self.dir = directory
        self.crates = {}
        self.bodies = {}     # path -> body
        self.by_name = {}    # last segment -> [body]
        self.adts = {}       # path -> adt
        raw = {}
        for c in EXPECTED_CRATES:
            with open(os.path.join(directory, c + ".json")) as f:
                raw[c] = json.load(f)
        self.renamed = renamed_functions(raw) if not os.environ.get("VERIF_NO_RENAMES") else {}
        if self.renamed:
            import re as _re
            for c in list(raw):
                text = json.dumps(raw[c])
                for newp, oldp in self.renamed.items():
                    text = _re.sub(_re.escape(json.dumps(newp)[1:-1]) + r"(?![A-Za-z0-9_])", lambda m_: json.dumps(oldp)[1:-1], text)
                raw[c] = json.loads(text)
                for b in raw[c]["bodies"]:
                    for newp, oldp in self.renamed.items():
                        if b["path"] == oldp:
                            b["name"] = oldp.rsplit("::", 1)[1]
        for c in EXPECTED_CRATES:
            if True:
                d = raw[c]
            self.crates[c] = d
            for b in d["bodies"]:
                b["crate"] = c
                self.bodies[b["path"]] = b
                self.by_name.setdefault(b["name"], []).append(b)
            for a in d["adts"]:
                a["crate"] = c
                self.adts[a["path"]] = a
        self.n_functions = sum(1 for b in self.bodies.values() if b["kind"] in ("Fn", "AssocFn", "Closure"))
        self._closures = None
        self._owner_cache = {}
        self._edges = None
        try:
            with open(NAME_TABLE) as f_:
                self.reference_paths = {t["path"] for t in json.load(f_)}
        except (OSError, ValueError):
            self.reference_paths = set()
        global CURRENT
        CURRENT = self

    def site_owner(self, path, _depth=0):
        """The function a site inside `path` is reported under: `path` itself when the reference tree has it; for a helper
        the reference tree does not know (code moved out of a function into a new private one) the function that calls it,
        when exactly one does - a known finding recorded against `parse_x` stays recognisable after `parse_x` has been
        split. Closures belong to the function they sit in."""
        while "::{closure#" in path:
            path = path[:path.rindex("::{closure#")]
        if path in self._owner_cache:
            return self._owner_cache[path]
        out = path
        if self.reference_paths and path not in self.reference_paths and _depth < 3:
            if self._edges is None:
                self._edges = _call_edges(self.crates)
            callers = {c for c in self._edges.get(path, ()) if c != path}
            if len(callers) == 1:
                out = self.site_owner(next(iter(callers)), _depth + 1)
        self._owner_cache[path] = out
        return out

    # ---- lookup -----------------------------------------------------
    def fns(self, name=None, crate=None, self_ty=None, path_contains=None, kinds=("Fn", "AssocFn")):
        res = []
        cands = self.by_name.get(name, []) if name is not None else self.bodies.values()
        for b in cands:
            if b["kind"] not in kinds:
                continue
            if crate and b["crate"] != crate:
                continue
            if self_ty is not None and not short(b.get("self_ty", "")).startswith(self_ty):
                continue
            if path_contains and path_contains not in b["path"]:
                continue
            res.append(b)
        return res

    def fn(self, name, crate=None, self_ty=None, path_contains=None, kinds=("Fn", "AssocFn")):
        """Unique function by name (+crate / self type). None if absent or ambiguous."""
        r = self.fns(name, crate, self_ty, path_contains, kinds)
        return r[0] if len(r) == 1 else None

    def adt(self, suffix, crate=None):
        r = [a for p, a in self.adts.items()
             if (p == suffix or p.endswith("::" + suffix)) and (crate is None or a["crate"] == crate)]
        return r[0] if len(r) == 1 else None

    def variants(self, adt_suffix, crate=None):
        a = self.adt(adt_suffix, crate)
        return [v["name"] for v in a["variants"]] if a else None

    def const(self, name, crate=None):
        r = [b for b in self.by_name.get(name, []) if b["kind"] in ("Const", "Static", "AssocConst")
             and (crate is None or b["crate"] == crate)]
        return r[0] if len(r) == 1 else None

    def closures_of(self, path):
        if self._closures is None:
            self._closures = {}
            for b in self.bodies.values():
                if b["kind"] == "Closure":
                    self._closures.setdefault(b["parent"], []).append(b)
        return self._closures.get(path, [])


def family(facts, fn, depth=2, same_crate=True):
    """fn, its closures, and the workspace functions it calls (transitively up to `depth`, same crate by default),
    each once: code that was moved into a private helper is still 'in' the function for table-reading rules."""
    out, seen = [], set()

    def add(b, d):
        if b is None or b["path"] in seen or "thir" not in b:
            return
        seen.add(b["path"])
        out.append(b)
        for cb in facts.closures_of(b["path"]):
            add(cb, d)
        if d <= 0:
            return
        for c in exprs(b["thir"], "Call"):
            for key in ("rfn", "fn"):
                cal = c.get(key)
                cb = facts.bodies.get(cal) if cal else None
                if cb is not None and (not same_crate or cb.get("crate") == fn.get("crate")):
                    add(cb, d - 1)
                    break
        for c in exprs(b["thir"], "FnRef"):
            cb = facts.bodies.get(c.get("fn"))
            if cb is not None and (not same_crate or cb.get("crate") == fn.get("crate")):
                add(cb, d - 1)
    add(fn, depth)
    return out


def let_table(body_thir):
    """id -> init expression for plain `let x = e;` bindings (not `mut`-reassigned ones: a variable that is assigned
    again later is left out, its value is not its initialiser)."""
    assigned = set()
    for a in walk(body_thir):
        if isinstance(a, dict) and a.get("k") in ("Assign", "AssignOp"):
            v = leftmost_var(a["l"])
            if v is not None:
                assigned.add(v["id"])
        elif isinstance(a, dict) and a.get("k") in ("Borrow", "RawBorrow") and a.get("mut"):
            v = leftmost_var(a["e"])          # `&mut x` (e.g. the receiver of x.push(..)): x changes after its `let`
            if v is not None:
                assigned.add(v["id"])
    tab = {}
    for s in walk(body_thir):
        if isinstance(s, dict) and s.get("k") == "LetStmt" and "init" in s and s.get("pat", {}).get("k") == "Bind" and "else" not in s:
            if s["pat"]["id"] not in assigned:
                tab[s["pat"]["id"]] = s["init"]
    return tab


def inline_lets(body_thir, e, depth=4, _tab=None):
    """e with every temporary (`let x = init;`, never reassigned) replaced by its initialiser, recursively: rules then
    see through `let tmp = a.b[c..]; f(tmp)`."""
    import copy
    tab = _tab if _tab is not None else let_table(body_thir)

    def sub(n, d):
        if isinstance(n, list):
            return [sub(x, d) for x in n]
        if not isinstance(n, dict):
            return n
        if n.get("k") == "Var" and n.get("id") in tab and d > 0:
            return sub(tab[n["id"]], d - 1)
        return {k: (sub(v, d) if isinstance(v, (dict, list)) else v) for k, v in n.items()}
    return sub(e, depth)


def calls_through_wrappers(facts, body, is_target, depth=2):
    """Calls of a target function made by `body` directly or through private same-crate helper functions: yields
    (args, node) with the arguments expressed in `body`'s own terms (helper parameters replaced by the caller's
    argument expressions). Extracting `T::new(..)` into `fn make(..) -> T { T::new(..) }` is invisible to rules using this."""
    out = []

    def subst(n, mapping):
        if isinstance(n, list):
            return [subst(x, mapping) for x in n]
        if not isinstance(n, dict):
            return n
        if n.get("k") == "Var" and n.get("id") in mapping:
            return mapping[n["id"]]
        return {k: (subst(v, mapping) if isinstance(v, (dict, list)) else v) for k, v in n.items()}
    for c in exprs(body["thir"], "Call"):
        if is_target(c):
            out.append((c.get("args", []), c))
            continue
        cal = c.get("rfn") or c.get("fn")
        cb = facts.bodies.get(cal) if cal else None
        if cb is None or depth <= 0 or cb.get("crate") != body.get("crate") or cb["path"] == body["path"] or "thir" not in cb:
            continue
        params = cb.get("params", [])
        if len(params) != len(c.get("args", [])):
            continue
        mapping = {}
        for prm, a in zip(params, c["args"]):
            pat = prm.get("pat") or {}
            if pat.get("k") == "Bind":
                mapping[pat["id"]] = a
        for args, node in calls_through_wrappers(facts, cb, is_target, depth - 1):
            out.append((subst(args, mapping), node))
    return out


WILD = {"k": "Wild"}


def branches(root):
    """Every branch on a pattern under root, whichever way it is written: yields {scrut, arms: [(pat, body)], node}
    for `match e {..}` and for `if let P = e {A} else {B}` (arms (P, A), (_, B))."""
    for n in walk(root):
        if not isinstance(n, dict):
            continue
        if n.get("k") == "Match" and not n.get("src", "").startswith(("TryDesugar", "ForLoopDesugar", "AwaitDesugar")):
            yield {"scrut": n["scrut"], "arms": [(a["pat"], a["body"]) for a in n["arms"]], "node": n}
        elif n.get("k") == "If":
            c = strip(n["cond"])
            if c.get("k") == "Let":
                yield {"scrut": c["e"], "arms": [(c["pat"], n["then"]), (WILD, n.get("else") or {"k": "Block", "stmts": []})], "node": n}


def exprs_with_closures(facts, node, kind=None, _depth=3):
    """exprs(node, kind) plus the same inside the bodies of closures written under node (`xs.iter().map(|x| ..)`)."""
    for n in walk(node):
        if not isinstance(n, dict) or "k" not in n:
            continue
        if kind is None or n["k"] == kind:
            yield n
        if n["k"] == "Closure" and _depth > 0:
            cb = facts.bodies.get(n.get("path"))
            if cb is not None and "thir" in cb:
                for x in exprs_with_closures(facts, cb["thir"], kind, _depth - 1):
                    yield x


def exprs_deep(facts, fn, kind=None, depth=2):
    for b in family(facts, fn, depth):
        for n in exprs(b["thir"], kind):
            yield n


_short_cache = {}


def short(p):
    """Last path segment of a (possibly generic) type or def path, generic arguments removed."""
    if p is None:
        return ""
    r = _short_cache.get(p)
    if r is None:
        r = _short_cache[p] = _short(p)
    return r


def _short(p):
    out = []
    depth = 0
    for ch in p:
        if ch == "<":
            depth += 1
        elif ch == ">":
            depth -= 1
        elif depth == 0:
            out.append(ch)
    segs = [s for s in "".join(out).split("::") if s]
    return segs[-1] if segs else ""


def where(body, node=None):
    ln = None
    if isinstance(node, dict):
        ln = node.get("ln")
    elif isinstance(node, int):
        ln = node
    f = body["file"]
    return "%s:%s" % (f, ln if ln is not None else body["lo"])


# ---------------------------------------------------------------- THIR ----

def children(node):
    """Immediate child nodes (dicts carrying a 'k') of a THIR node, in source order."""
    for key, v in node.items():
        if isinstance(v, dict):
            yield v
        elif isinstance(v, list):
            for x in v:
                if isinstance(x, dict):
                    yield x


def walk(node):
    """All nested dict nodes, pre-order (expressions, patterns, arms, field inits)."""
    stack = [node]
    while stack:
        n = stack.pop()
        yield n
        ch = list(children(n))
        ch.reverse()
        stack.extend(ch)


def exprs(node, kind=None):
    for n in walk(node):
        if "k" in n and (kind is None or n["k"] == kind):
            yield n


def strip(e):
    """Peel wrappers that do not change the value: borrows, derefs, coercions, blocks
    with a single tail expression."""
    while isinstance(e, dict):
        k = e.get("k")
        if k in ("Borrow", "Deref", "Coerce", "RawBorrow"):
            e = e["e"]
        elif k == "Block" and not e["stmts"] and "expr" in e:
            e = e["expr"]
        else:
            break
    return e


def callee(e):
    """Resolved callee path of a Call / FnRef node (trait calls resolved when possible)."""
    return e.get("rfn") or e.get("fn")


def is_call_to(e, name_suffix):
    if e.get("k") != "Call":
        return False
    c = callee(e) or ""
    g = e.get("fn") or ""
    return c.endswith(name_suffix) or g.endswith(name_suffix)


def lit(e):
    """Literal value of a THIR expression if it is a literal (through wrappers), else None.
    Returns (type_tag, value)."""
    e = strip(e)
    if isinstance(e, dict) and e.get("k") == "Lit":
        return (e.get("t"), e.get("v"))
    if isinstance(e, dict) and e.get("k") == "Unary" and e.get("op") == "Neg":
        inner = lit(e["e"])
        if inner and inner[0] == "int":
            return ("int", -inner[1])
    return None


def pat_alternatives(p):
    """Flatten or-patterns into a list of alternatives."""
    if p.get("k") == "Or":
        out = []
        for q in p["pats"]:
            out.extend(pat_alternatives(q))
        return out
    if p.get("k") == "Bind" and "sub" in p:
        return pat_alternatives(p["sub"])
    return [p]


def pat_is_catchall(p):
    k = p.get("k")
    if k == "Wild":
        return True
    if k == "Bind":
        return "sub" not in p or pat_is_catchall(p["sub"])
    return False


def pat_variant(p):
    """(adt short name, variant) if p is an enum variant pattern, else None."""
    if p.get("k") == "Variant":
        return (short(p["adt"]), p["variant"])
    return None


def pat_sub(p, field):
    for sp in p.get("subs", []):
        if sp["f"] == field:
            return sp["p"]
    return None


def adt_ctor(e):
    """(adt short, variant or None, {field: expr}) if e constructs an ADT."""
    e = strip(e)
    if isinstance(e, dict) and e.get("k") == "Adt":
        return (short(e["adt"]), e.get("variant"), {f["f"]: f["e"] for f in e["fields"]})
    return None


CURRENT = None      # the Facts loaded last (rules work on one fact set per process)


def find_matches(body, scrut_ty_suffix=None, pred=None, deep=True):
    """All Match nodes in body's THIR whose scrutinee type (refs peeled) ends with suffix. When the body itself has
    none, the private helpers it calls (same crate, one level) and its closures are searched: a table that was moved
    into a helper function is still the function's table."""
    def local(b):
        res = []
        for m in exprs(b["thir"], "Match"):
            st = m["scrut"].get("ty", "")
            stc = st.replace("&", "").replace("mut ", "").strip()
            if scrut_ty_suffix is not None and not (stc == scrut_ty_suffix or stc.endswith("::" + scrut_ty_suffix)):
                continue
            if pred and not pred(m):
                continue
            res.append(m)
        return res
    res = local(body)
    if not res and deep and CURRENT is not None and "path" in body:
        for b in family(CURRENT, body, depth=1)[1:]:
            res += local(b)
    return res


def tail(e):
    """The value expression of a block-like node (last expr), through nested blocks."""
    while isinstance(e, dict) and e.get("k") == "Block" and "expr" in e:
        e = e["expr"]
    return e


def main_selfcheck():
    out, scratch, dt = extract()
    f = Facts(out)
    print("crates", len(f.crates), "bodies", len(f.bodies), "fns", f.n_functions, "adts", len(f.adts), "extract %.1fs" % dt)
    shutil.rmtree(scratch, ignore_errors=True)


if __name__ == "__main__":
    main_selfcheck()


# ------------------------------------------------------- format strings ----

def decode_fmt(b):
    """Decode a core::fmt::Arguments template byte string into pieces
    [('lit', text) | ('arg', index_or_None)]."""
    out = []
    i = 0
    nxt = 0
    while i < len(b):
        c = b[i]
        if c == 0:
            break
        if c < 0x80:
            out.append(("lit", bytes(b[i + 1:i + 1 + c]).decode("utf-8", "replace")))
            i += 1 + c
        elif c == 0x80:
            ln = b[i + 1] | (b[i + 2] << 8)
            out.append(("lit", bytes(b[i + 3:i + 3 + ln]).decode("utf-8", "replace")))
            i += 3 + ln
        elif c & 0xC0 == 0xC0:
            i += 1
            if c & 1:
                i += 4
            if c & 2:
                i += 2
            if c & 4:
                i += 2
            idx = nxt
            if c & 8:
                idx = b[i] | (b[i + 1] << 8)
                i += 2
            nxt = idx + 1
            out.append(("arg", idx))
        else:
            raise ValueError("bad format template byte %r" % c)
    return out


def fmt_template(node):
    """Template pieces of the format_args! found inside `node` (a write!/format!/panic! call)."""
    for c in exprs(node, "Call"):
        fn = c.get("fn") or ""
        if fn.startswith("core::fmt::Arguments"):
            for a in c.get("args", []):
                a = strip(a)
                if a.get("k") == "Lit":
                    if a.get("t") == "bytes":
                        return decode_fmt(a["b"])
                    if a.get("t") == "str":
                        return [("lit", a["v"])]
    return None


# ------------------------------------------------------------ for loops ----

def for_loops(root):
    """[(pattern, iterated_expr, body, node)] for every `for PAT in ITER { BODY }` under root."""
    out = []
    for m in exprs(root, "Match"):
        if not m.get("src", "").startswith("ForLoopDesugar"):
            continue
        it = m["scrut"]
        if it.get("k") == "Call" and it.get("args"):
            it = it["args"][0]
        pat = body = None
        for inner in exprs(m["arms"][0]["body"], "Match"):
            for arm in inner["arms"]:
                pv = pat_variant(arm["pat"])
                if pv and pv[1] == "Some":
                    pat = pat_sub(arm["pat"], "0")
                    body = arm["body"]
            if pat is not None:
                break
        if pat is not None:
            out.append((pat, it, body, m))
    return out


def leftmost_var(e):
    """Descend through receivers / first arguments, fields, derefs to the variable at the bottom."""
    while isinstance(e, dict):
        e = strip(e)
        k = e.get("k")
        if k == "Var":
            return e
        if k == "Call" and e.get("args"):
            e = e["args"][0]
        elif k in ("Field", "Cast", "Index", "Unary"):
            e = e["e"]
        else:
            return None
    return None


def pat_binds(p, path=()):
    """[(id, name, path)] of all bindings in a pattern; path = tuple/field positions."""
    k = p.get("k")
    out = []
    if k == "Bind":
        out.append((p["id"], p["name"], path))
        if "sub" in p:
            out += pat_binds(p["sub"], path)
    elif k in ("Variant", "Leaf"):
        for sp in p["subs"]:
            out += pat_binds(sp["p"], path + (str(sp["f"]),))
    elif k == "Or":
        for q in p["pats"]:
            out += pat_binds(q, path)
    elif k == "Slice":
        for i, q in enumerate(p.get("prefix", [])):
            out += pat_binds(q, path + ("[%d]" % i,))
    return out


def find_matches_node(node, scrut_ty_suffix):
    """Match nodes under an arbitrary node whose scrutinee type ends with suffix."""
    res = []
    for m in exprs(node, "Match"):
        st = m["scrut"].get("ty", "").replace("&", "").replace("mut ", "").strip()
        if st == scrut_ty_suffix or st.endswith("::" + scrut_ty_suffix):
            res.append(m)
    return res
