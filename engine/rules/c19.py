"""C19 — layout-consistency validation is sound (structural part)."""
import facts as F
import mirs as M
from facts import short, where

EXPLANATION = (
    "Soundness against the true HLSL / Metal layout rules needs an independent layout model and is not decided (the "
    "checker compares total sizes only, as the property text notes). Decided: C19.wire — compile() calls "
    "ir::layout_checker::check_layout exactly under args.validate_layout_consistency, before any build_pipeline, and "
    "returns its error. C19.cover — the intrinsic list of check_layout equals the set of Intrinsics that "
    "ir::intrinsic_data declares as templated typed loads/stores on byte-address / buffer-address objects, and "
    "structured buffers are collected from the globals. C19.shape — get_type_layout's struct arm aligns the running "
    "size up to the member's alignment before adding the member's size and takes the maximum alignment; the vector arm "
    "rounds the lane count to a power of two and sets align = size in Metal mode only; arrays multiply by the count; "
    "check_layout rounds both sizes up to their alignment, compares the two modes HlslStructuredBuffer and Metal and "
    "reports a mismatch exactly when the sizes differ."
)
ASSUMPTIONS = ["rustc THIR/MIR is a faithful view of the source"]


def run(chk):
    f = chk.facts
    comp = chk.anchor("C19.anchor/compile", f.fn("compile", "rssl", path_contains="compile::compile"), "rssl::compile")
    cl = chk.anchor("C19.anchor/check_layout", f.fn("check_layout", "rssl_ir"), "check_layout")
    gl = chk.anchor("C19.anchor/get_type_layout", f.fn("get_type_layout", "rssl_ir"), "get_type_layout")
    if comp and cl:
        cfg = M.Cfg(comp)
        sites = cfg.calls("layout_checker::check_layout")
        chk.ob("C19.wire/site", len(sites) == 1, "%d call(s) of check_layout in compile" % len(sites), where(comp), trivial=len(sites) == 1)
        for bb, t in sites:
            ok, _ = M.dominated_by_guard(cfg, bb, M.is_field("validate_layout_consistency"), want=True)
            chk.ob("C19.wire/iff-enabled", ok, "check_layout runs under validate_layout_consistency" if ok else
                   "check_layout is not guarded by args.validate_layout_consistency", where(comp, t.get("ln")))
            bps = cfg.calls("build_pipeline")
            before = bool(bps) and all(not cfg.exists_path(b2, bb) for b2, _ in bps)
            # when validation is on, every build_pipeline is reached only through the check
            te, fe = M.guard_edges(cfg, M.is_field("validate_layout_consistency"))
            reach_skip = cfg.reachable_from(0, avoid=[bb], avoid_edges=fe)
            through = all(b2 not in reach_skip for b2, _ in bps)
            chk.ob("C19.wire/before-build", before and through, "validation precedes every build_pipeline when enabled" if before and through else
                   "with validation enabled a pipeline can be built without passing check_layout", where(comp, t.get("ln")))
            # its error is returned: the Err arm reaches a Return without building
            errs = [i for i, j, s in cfg.stmts(lambda s: s.get("r") == "Agg" and short(s.get("adt", "")) == "CompileError" and s.get("variant") == "Text")]
            text_helpers = {b2["path"] for b2 in f.crates[comp["crate"]]["bodies"] if "thir" in b2 and b2["path"] != comp["path"] and
                            any(short(a.get("adt", "")) == "CompileError" and a.get("variant") == "Text" for a in F.exprs(b2["thir"], "Adt"))}
            errs += [bb2 for bb2, t2 in cfg.calls() if cfg.callee(t2) in text_helpers]
            after = [i for i in errs if cfg.dominates(bb, i)]
            ok_err = any(all(b2 not in cfg.reachable_from(i) for b2, _ in bps) for i in after)
            chk.ob("C19.wire/error-returned", ok_err, "a layout error is turned into CompileError::Text and returned" if ok_err else
                   "the result of check_layout is not propagated as an error", where(comp, t.get("ln")))
    evaluated = False
    if cl and gl:
        try:
            evaluated = rule_layout_eval(chk, cl, gl)
        except Exception as e:            # the model could not be evaluated: the shape rules decide
            chk.note("layout model not evaluated: %r" % (e,))
    if cl and not evaluated:
        rule_cover(chk, cl, structured=True)
        rule_compare(chk, cl)
    if gl and not evaluated:
        rule_shape(chk, gl)


def rule_layout_eval(chk, cl, gl):
    """check_layout / get_type_layout evaluated on model modules (layoutmodel.py) and compared with the packing rules
    written independently there: per type and packing mode the (size, align) pair; per buffer element type the verdict
    (accepted iff the padded sizes agree, the reported sizes are the padded ones, unknown layouts are errors); which
    object kinds are examined. Returns False when the functions are not readable."""
    import layoutmodel as LM
    f = chk.facts
    m = LM.LayoutModel(f)
    sc = {n: m.scalar(n) for n in ("Float32", "Int32", "UInt32", "Float16", "Float64")}
    vec = {(n, k): m.vector(sc[n], k) for n in ("Float32", "Float16", "Float64") for k in (1, 2, 3, 4)}
    types = dict(("scalar %s" % n, i) for n, i in sc.items())
    types.update(("%s%d" % (n, k), i) for (n, k), i in vec.items())
    F3, F2, F1, F4 = vec[("Float32", 3)], vec[("Float32", 2)], sc["Float32"], vec[("Float32", 4)]
    H2, D2 = vec[("Float16", 2)], vec[("Float64", 2)]
    structs = {
        "{float3; float; float3}": m.struct([F3, F1, F3]), "{float2; float}": m.struct([F2, F1]), "{float; float}": m.struct([F1, F1]),
        "{float4; float}": m.struct([F4, F1]), "{float; float2; float}": m.struct([F1, F2, F1]), "{float3}": m.struct([F3]),
        "{half2; float}": m.struct([H2, F1]), "{double2; float}": m.struct([D2, F1]), "{float[3]; float2}": m.struct([m.array(F1, 3), F2]),
        "{uint; const float4}": m.struct([sc["UInt32"], m.modifier(F4)]),
    }
    structs["{ {float2; float}; float4 }"] = m.struct([structs["{float2; float}"], F4])
    structs["{float3[2]; float}"] = m.struct([m.array(F3, 2), F1])
    structs["{}"] = m.struct([])
    structs["{ {}; float3 }"] = m.struct([structs["{}"], F3])
    structs["{ { {} } }"] = m.struct([m.struct([structs["{}"]])])
    types.update(structs)
    probe = m.layout(F1, "Metal")
    if probe is not None and probe[0] == "unreadable":
        return False
    for mode in ("HlslStructuredBuffer", "Metal"):
        bad = []
        for name, i in types.items():
            got, want = m.layout(i, mode), m.ref(i, mode)
            if got != want:
                bad.append((name, got, want))
        chk.ob("C19.shape/layout/%s" % mode, not bad, "%d types: (size, align) equal the %s packing rules" % (len(types), mode) if not bad else
               "get_type_layout(%s, %s) = %s, the packing rules give %s (%d of %d types wrong)" % (bad[0][0], mode, bad[0][1], bad[0][2], len(bad), len(types)),
               where(gl), sample={"mode": mode, "types": len(types), "wrong": len(bad)})
    unk = {"bool": m.scalar("Bool"), "StructuredBuffer object": m.object("StructuredBuffer", F1)}
    badu = [n for n, i in unk.items() if m.layout(i, "Metal") is not None or m.layout(i, "HlslStructuredBuffer") is not None]
    chk.ob("C19.shape/unknown", not badu, "bool and objects have no layout" if not badu else "%s is given a layout" % badu, where(gl))
    # verdicts
    bad = []
    for name, i in structs.items():
        r = m.check([m.object("StructuredBuffer", i)])
        a, b = m.ref_total(i, "HlslStructuredBuffer"), m.ref_total(i, "Metal")
        want = ("Ok",) if a[0] == b[0] else ("Mismatch", a, b)
        if r != want:
            bad.append((name, r, want))
    chk.ob("C19.shape/verdict", not bad, "%d buffer element types: accepted iff the padded HLSL and Metal sizes agree; the reported sizes are the padded ones" % len(structs) if not bad else
           "check_layout on StructuredBuffer<%s> gives %s, must be %s (%d of %d element types): layouts that differ are accepted, or a wrong size is reported"
           % (bad[0][0], bad[0][1], bad[0][2], len(bad), len(structs)), where(cl), sample={"types": len(structs), "wrong": len(bad)})
    for k_ in ("round-to-align", "round-own-align", "mismatch-iff-differs", "modes"):
        chk.ob("C19.shape/" + k_, not bad, "decided by the evaluated verdicts" if not bad else "see C19.shape/verdict", where(cl), trivial=True)
    r = m.check([m.object("StructuredBuffer", m.struct([m.scalar("Bool")]))])
    chk.ob("C19.shape/unknown-is-error", r == ("Err", "UnknownLayout"), "an element type without a layout is an error" if r == ("Err", "UnknownLayout") else
           "a buffer element type without a known layout gives %s, must be Err(UnknownLayout)" % (r,), where(cl))
    # which object kinds are examined
    mism = structs["{float3}"]
    objs = f.adt("ir_types::ObjectType", "rssl_ir")
    examined = set()
    for v in (objs or {}).get("variants", []):
        if len(v["fields"]) == 1 and "TypeId" in (v["fields"][0].get("ty") or ""):
            r = m.check([m.object(v["name"], mism)])
            if r[0] in ("Mismatch", "Err"):
                examined.add(v["name"])
    ok = examined == {"StructuredBuffer", "RWStructuredBuffer"}
    chk.ob("C19.cover/structured-buffers", ok, "element types of StructuredBuffer / RWStructuredBuffer globals are validated" if ok else
           "check_layout examines the element types of %s globals (must be exactly StructuredBuffer and RWStructuredBuffer)" % sorted(examined), where(cl))
    # typed loads / stores: the T of Load<T> / Store<T> on raw buffers and buffer addresses is validated whatever globals exist
    badt = None
    f1 = sc["Float32"]
    glob_sets = {"a ByteAddressBuffer global": [m.object("ByteAddressBuffer", None)], "a RWByteAddressBuffer global": [m.object("RWByteAddressBuffer", None)],
                 "a BufferAddress global": [m.object("BufferAddress", None)], "a RWBufferAddress global": [m.object("RWBufferAddress", None)],
                 "an array of ByteAddressBuffer": [m.array(m.object("ByteAddressBuffer", None), 4)], "a const ByteAddressBuffer global": [m.modifier(m.object("ByteAddressBuffer", None))]}
    want, n_defs = typed_access_intrinsics(f)
    per_intr = {}
    for intr in sorted(want | {"ByteAddressBufferLoadT", "RWByteAddressBufferLoadT", "RWByteAddressBufferStore", "BufferAddressLoad", "RWBufferAddressLoad", "RWBufferAddressStore"}):
        for gname, gl_ in glob_sets.items():
            r = m.check(gl_, typed=[(intr, mism)])
            if r[0] in ("unreadable",):
                badt = badt or ("unreadable", r[1])
                break
            if r[0] != "Mismatch":
                per_intr.setdefault(intr, "a struct whose HLSL and Metal layouts differ, used only as the T of %s, in a module with %s, gives %s: the typed load / store is not validated" % (intr, gname, r[0]))
                if badt is None:
                    badt = per_intr[intr]
        else:
            per_intr.setdefault(intr, None)
    if not isinstance(badt, tuple):
        # (the per-intrinsic obligations of the shape rule, decided by evaluation: the list of typed accesses is intrinsic_data's)
        for intr, why in sorted(per_intr.items()):
            chk.ob("C19.cover/%s" % intr, why is None, why or "typed raw-buffer access is validated", where(cl), sample={"intrinsic": intr})
        chk.floor("C19.floor/listed-intrinsics", len(per_intr), 6, "typed load / store intrinsics evaluated through check_layout", where(cl))
        chk.floor("C19.floor/intrinsic-definitions", n_defs, 300, "IntrinsicDefinition entries read from intrinsic_data", where(cl))
    if isinstance(badt, tuple):
        chk.unreadable("C19.cover/typed-loads", "check_layout on modules with typed load instantiations", badt[1][:100], where(cl))
    else:
        chk.ob("C19.cover/typed-loads", badt is None, badt or "the element type of every typed load / store intrinsic is validated, whatever globals the module has", where(cl))
    # two globals: the first mismatch is reported, an accepted one does not hide a later mismatch
    r = m.check([m.object("StructuredBuffer", structs["{float; float}"]), m.object("RWStructuredBuffer", mism)])
    chk.ob("C19.cover/every-global", r[0] == "Mismatch", "every structured buffer global is examined" if r[0] == "Mismatch" else
           "a mismatching buffer declared after an accepted one is not reported (%s)" % (r,), where(cl))
    return True


def typed_access_intrinsics(f):
    """(intrinsics that intrinsic_data declares as object methods templated on a function template argument - `T Load(uint)`,
    `void Store(uint, T)`: the typed raw-buffer accesses whose element type must be validated -, number of definitions read)"""
    objs = f.variants("ir_types::ObjectType", "rssl_ir") or []
    want = set()
    n_defs = 0
    for b in f.crates["rssl_ir"]["bodies"]:
        if "intrinsic_data" not in b["path"] or "thir" not in b:
            continue
        for a in F.exprs(b["thir"], "Adt"):
            if short(a["adt"]) == "IntrinsicDefinition":
                n_defs += 1
                fl = {x["f"]: x["e"] for x in a["fields"]}
                intr = F.adt_ctor(fl.get("intrinsic", {}))
                if intr and any(short(x.get("adt", "")) == "TypeDef" and x.get("variant") == "FunctionTemplateArgument" for x in F.exprs(a, "Adt")):
                    if any(intr[1].startswith(o) for o in objs):
                        want.add(intr[1])
    return want, n_defs


def rule_cover(chk, cl, structured=True):
    f = chk.facts
    listed = set()
    for m in F.exprs(cl["thir"], "Match"):
        if (m.get("mac") or "").startswith("matches") and F.strip(m["scrut"]).get("ty", "").endswith("Intrinsic"):
            for arm in m["arms"]:
                for alt in F.pat_alternatives(arm["pat"]):
                    pv = F.pat_variant(alt)
                    if pv and pv[0] == "Intrinsic":
                        listed.add(pv[1])
    chk.floor("C19.floor/listed-intrinsics", len(listed), 6, "intrinsics examined by check_layout", where(cl))
    # sibling table: intrinsic_data declares which object methods are templated on a function template argument
    # (`T Load(uint)`, `void Store(uint, T)`); those are the typed raw-buffer accesses whose element type must be validated
    objs = f.variants("ir_types::ObjectType", "rssl_ir") or []
    want = set()
    n_defs = 0
    for b in f.crates["rssl_ir"]["bodies"]:
        if "intrinsic_data" not in b["path"] or "thir" not in b:
            continue
        for a in F.exprs(b["thir"], "Adt"):
            if short(a["adt"]) == "IntrinsicDefinition":
                n_defs += 1
                fl = {x["f"]: x["e"] for x in a["fields"]}
                intr = F.adt_ctor(fl.get("intrinsic", {}))
                if intr and any(short(x.get("adt", "")) == "TypeDef" and x.get("variant") == "FunctionTemplateArgument" for x in F.exprs(a, "Adt")):
                    if any(intr[1].startswith(o) for o in objs):
                        want.add(intr[1])
    chk.floor("C19.floor/intrinsic-definitions", n_defs, 300, "IntrinsicDefinition entries read from intrinsic_data", where(cl))
    for v in sorted(want | listed):
        ok = v in listed and v in want
        chk.ob("C19.cover/%s" % v, ok, "typed raw-buffer access is validated" if ok else
               ("intrinsic_data declares Intrinsic::%s as a templated typed load/store on a buffer object but check_layout does not examine its element type" % v if v in want else
                "check_layout lists Intrinsic::%s, which is not a typed raw-buffer load/store" % v), where(cl), sample={"intrinsic": v})
    if not structured:
        return
    # structured buffers from globals
    sb = set()
    for m in F.find_matches(cl, "ObjectType"):
        for arm in m["arms"]:
            for alt in F.pat_alternatives(arm["pat"]):
                pv = F.pat_variant(alt)
                if pv and pv[0] == "ObjectType" and any(short(c.get("fn") or "") in ("insert", "push") for c in F.exprs(arm["body"], "Call")):
                    sb.add(pv[1])
    ok = sb == {"StructuredBuffer", "RWStructuredBuffer"}
    chk.ob("C19.cover/structured-buffers", ok, "element types of StructuredBuffer / RWStructuredBuffer globals are validated" if ok else
           "check_layout collects element types from %s (must be StructuredBuffer and RWStructuredBuffer)" % sorted(sb), where(cl))


def rule_compare(chk, cl):
    modes = []
    for c in F.exprs(cl["thir"], "Call"):
        if short(c.get("fn") or "") == "get_type_layout":
            m = F.adt_ctor(c["args"][2])
            modes.append(m[1] if m else None)
    chk.ob("C19.shape/modes", sorted(x or "" for x in modes) == ["HlslStructuredBuffer", "Metal"], "layouts computed for HlslStructuredBuffer and Metal" if sorted(x or "" for x in modes) == ["HlslStructuredBuffer", "Metal"] else
           "check_layout computes layouts for %s" % modes, where(cl))
    rounds = [c for c in F.exprs(cl["thir"], "Call") if short(c.get("fn") or "") == "next_multiple_of"]
    ok_r = len(rounds) == 2 and all(any(x.get("name") == "size" for x in F.exprs(c["args"][0], "Field")) and any(x.get("name") == "align" for x in F.exprs(c["args"][1], "Field")) for c in rounds)
    chk.ob("C19.shape/round-to-align", ok_r, "both total sizes are rounded up to their alignment" if ok_r else "total sizes are no longer rounded up to the struct alignment before comparison", where(cl))
    # each layout is rounded with its OWN alignment and written back to its own size: X.size = X.size.next_multiple_of(X.align)
    own = []
    for a in F.walk(cl["thir"]):
        if a.get("k") != "Assign":
            continue
        r = F.strip(a["r"])
        if r.get("k") == "Call" and short(r.get("fn") or "") == "next_multiple_of":
            ids = [(F.leftmost_var(x) or {}).get("id") for x in (a["l"], r["args"][0], r["args"][1])]
            names = [(F.leftmost_var(x) or {}).get("name") for x in (a["l"], r["args"][0], r["args"][1])]
            own.append((ids, names))
    mixed = [n for ids, n in own if len(set(ids)) != 1 or ids[0] is None]
    cmp_ids = set()
    for n in F.exprs(cl["thir"], "If"):
        c = F.strip(n["cond"])
        if c.get("k") == "Binary" and c["op"] == "Ne":
            cmp_ids = {(F.leftmost_var(x) or {}).get("id") for x in F.exprs(c, "Field") if x["name"] == "size"}
    ok_o = len(own) == 2 and not mixed and {ids[0] for ids, _ in own} == cmp_ids
    chk.ob("C19.shape/round-own-align", ok_o, "each layout's size is rounded to that layout's own alignment, and those two layouts are the ones compared" if ok_o else
           ("a total size is rounded with another layout's alignment or written to another layout (%s): trailing padding of one target is lost and differing layouts compare equal"
            % (mixed or [n for _, n in own])), where(cl))
    ok_c = False
    for n in F.exprs(cl["thir"], "If"):
        c = F.strip(n["cond"])
        if c.get("k") == "Binary" and c["op"] == "Ne":
            sz = [x for x in F.exprs(c, "Field") if x["name"] == "size"]
            vs = {F.leftmost_var(x)["id"] for x in sz if F.leftmost_var(x)}
            errs = [a for a in F.exprs(n["then"], "Adt") if a.get("variant") == "MismatchedLayout"]
            ok_c = len(sz) == 2 and len(vs) == 2 and bool(errs) and any(x.get("k") == "Return" for x in F.walk(n["then"]))
    chk.ob("C19.shape/mismatch-iff-differs", ok_c, "MismatchedLayout is returned exactly when the two sizes differ" if ok_c else
           "the comparison `layout_hlsl.size != layout_metal.size -> Err(MismatchedLayout)` is gone or changed", where(cl))
    unk = [a for a in F.exprs(cl["thir"], "Adt") if a.get("variant") == "UnknownLayout"]
    chk.ob("C19.shape/unknown-is-error", len(unk) == 2, "an unknown layout in either mode is an error" if len(unk) == 2 else "UnknownLayout is no longer reported for both modes", where(cl))


def rule_shape(chk, gl):
    m = None
    for mm in F.find_matches(gl, "TypeLayer"):
        if m is None or len(mm["arms"]) > len(m["arms"]):
            m = mm
    if not chk.anchor("C19.anchor/layout-match", m, "match over TypeLayer in get_type_layout", where(gl)):
        return
    arms = {}
    for arm in m["arms"]:
        for alt in F.pat_alternatives(arm["pat"]):
            pv = F.pat_variant(alt)
            if pv:
                arms.setdefault(pv[1], []).append((alt, arm))
    # struct arm
    st = arms.get("Struct")
    ok = False
    if st:
        body = st[0][1]["body"]
        loops = F.for_loops(body)
        for (p, it, lb, node) in loops:
            if lb is None:
                continue
            stmts = lb.get("stmts", []) if lb.get("k") == "Block" else []
            seq = []
            for s in stmts:
                if s.get("k") == "Assign":
                    l = F.strip(s["l"])
                    r = F.strip(s["r"])
                    if l.get("k") == "Field" and r.get("k") == "Call":
                        seq.append((l["name"], short(r.get("fn") or ""), [x["name"] for x in F.exprs(r, "Field")]))
                elif s.get("k") == "AssignOp":
                    l = F.strip(s["l"])
                    seq.append((l.get("name"), s["op"], [x["name"] for x in F.exprs(s["r"], "Field")]))
            want = [("size", "next_multiple_of", ["size", "align"]), ("size", "AddAssign", ["size"]), ("align", "max", ["align", "align"])]
            norm = [(a, b.replace("Add", "AddAssign") if b == "Add" else b, c) for a, b, c in seq]
            ok = norm == want
            if not ok:
                detail = norm
    chk.ob("C19.shape/struct", ok, "struct: size = align_up(size, member.align); size += member.size; align = max(align, member.align)" if ok else
           "the struct layout accumulator is no longer align-up, add size, max align (found %s)" % (detail if st else "no struct arm"), where(gl))
    # vector arm
    vec = arms.get("Vector")
    okv = False
    if vec:
        body = vec[0][1]["body"]
        for mm in F.find_matches_node(body, "PackingMode") if hasattr(F, "find_matches_node") else [x for x in F.exprs(body, "Match") if F.strip(x["scrut"]).get("ty", "").endswith("PackingMode")]:
            per = {}
            for arm in mm["arms"]:
                pv = F.pat_variant(arm["pat"])
                if pv:
                    calls = [short(c.get("fn") or "") for c in F.exprs(arm["body"], "Call")]
                    assigns = [(F.strip(a["l"]).get("name"), [x["name"] for x in F.exprs(a["r"], "Field")]) for a in F.exprs(arm["body"], "Assign") if F.strip(a["l"]).get("k") == "Field"]
                    muls = [F.strip(a["l"]).get("name") for a in F.exprs(arm["body"], "AssignOp") if a["op"] in ("Mul", "MulAssign")]
                    per[pv[1]] = (calls, assigns, muls)
            h, mt = per.get("HlslStructuredBuffer"), per.get("Metal")
            okv = bool(h and mt and h[2] == ["size"] and "next_power_of_two" not in h[0] and not h[1]
                       and "next_power_of_two" in mt[0] and mt[2] == ["size"] and ("align", ["size"]) in mt[1])
    chk.ob("C19.shape/vector", okv, "vector: size *= lanes; Metal rounds lanes to a power of two and aligns to the size" if okv else
           "the vector layout rule changed (HLSL: size *= x; Metal: x = next_power_of_two(x), size *= x, align = size)", where(gl))
    arr = arms.get("Array")
    oka = False
    if arr:
        for alt, arm in arr:
            muls = [a for a in F.exprs(arm["body"], "AssignOp") if a["op"] in ("Mul", "MulAssign") and F.strip(a["l"]).get("name") == "size"]
            if muls:
                oka = True
    chk.ob("C19.shape/array", oka, "array: size *= count" if oka else "the array layout rule no longer multiplies the element size by the count", where(gl))
    for name in ("Matrix", "Object", "Void"):
        a = arms.get(name)
        okn = bool(a) and (F.adt_ctor(F.tail(a[0][1]["body"])) or (0, 0))[1] == "None"
        chk.ob("C19.shape/%s-unknown" % name, okn, "%s has no known layout (validation rejects it)" % name if okn else "%s is given a layout" % name, where(gl))
