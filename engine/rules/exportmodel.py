"""Export o elaborate on expressions, read as a table.

A typed ir::Expression N (built by the typer's own elaboration functions on model operands, elabmodel.py) is handed to
the HLSL exporter's generate_expression; the ast::Expression that comes out is handed back to the typer's
parse_expr_unchecked. Both functions are walked by the finite-map reader; variables are the operand tags, type names are
carried through opaquely (generate_type_id / parse_type are stand-ins that pass the TypeId along). For DirectX HLSL the
emitted text must be accepted by the front end and be a fixpoint: the node that comes back must be N, with N's type.
Nothing of rssl is executed.
"""
import interp as I
import elabmodel as EM


class RoundTrip:
    def __init__(self, facts, crate="rssl_hlsl"):
        self.f = facts
        self.el = EM.Elab(facts)
        self.gen = facts.fn("generate_expression", crate)
        self.parse = facts.fn("parse_expr_unchecked", "rssl_typer")

    def export(self, node, operands):
        """-> ('Ok', ast) | ('Err', variant) | ('aborts'|'unreadable', why)"""
        el = self.el

        def varname(a):
            vid = a[1].fields["0"] if isinstance(a[1], I.Enum) else a[1]
            return I.Enum("Result", "Ok", {"0": el.TAGS[vid]})

        def gen_type_id(a):
            return I.Enum("Result", "Ok", {"0": I.Enum("TypeId", None, {"base": I.Enum("Type", None, {"carried": a[0]}), "abstract_declarator": I.Enum("Declarator", "Empty")})})
        ext = dict(el.base_ext)
        ext.update({"::get_variable_name": varname, "generate_type_id": gen_type_id})
        ip = I.Interp(self.f, max_depth=14, extern=ext)
        ip.max_loop = 64
        ctx = I.Enum("GenerateContext", None, {"module": el.module_for(operands)})
        try:
            r = ip.apply(self.gen, [node, ctx])
        except I.Unknown as e:
            msg = str(e)
            return ("aborts" if "panicking" in msg else "unreadable", msg[:120])
        if isinstance(r, I.Enum) and r.variant == "Ok":
            return ("Ok", r.fields["0"])
        if isinstance(r, I.Enum) and r.variant == "Err":
            return ("Err", getattr(r.fields.get("0"), "variant", "?"))
        return ("unreadable", repr(r)[:80])

    def reparse(self, ast, operands):
        """-> ('Ok', node, type) | ('Err', variant) | ('aborts'|'unreadable', why)"""
        el = self.el
        ext = dict(el.base_ext)

        def pid(a):
            idn = a[0].get() if isinstance(a[0], I.Ref) else a[0]
            ids = idn.fields.get("identifiers") if isinstance(idn, I.Enum) else None
            tag = ids[0].fields["node"] if isinstance(ids, list) and len(ids) == 1 else None
            if tag not in operands:
                return I.Enum("Result", "Err", {"0": I.Enum("TyperError", "UnknownIdentifier")})
            return I.Enum("Result", "Ok", {"0": I.Enum("TypedExpression", "Value", {"0": el.operand_node(tag, operands[tag]), "1": operands[tag]})})

        def ptype(a):
            t = a[0].get() if isinstance(a[0], I.Ref) else a[0]
            if isinstance(t, I.Enum) and "carried" in t.fields:
                return I.Enum("Result", "Ok", {"0": t.fields["carried"]})
            raise I.Unknown("a type that was not produced by the scripted generate_type_id")
        ext["parse_identifier"] = pid
        ext["parse_type"] = ptype
        ip = I.Interp(self.f, max_depth=18, extern=ext)
        ip.max_loop = 64
        ctx = I.Enum("Context", None, {"module": el.module_for(operands)})
        try:
            r = ip.apply(self.parse, [ast, ctx])
        except I.Unknown as e:
            msg = str(e)
            return ("aborts" if "panicking" in msg else "unreadable", msg[:120])
        if isinstance(r, I.Enum) and r.variant == "Ok":
            v = r.fields["0"]
            if isinstance(v, I.Enum) and v.variant == "Value":
                return ("Ok", v.fields["0"], v.fields["1"])
            return ("Ok", v, None)
        if isinstance(r, I.Enum) and r.variant == "Err":
            return ("Err", getattr(r.fields.get("0"), "variant", "?"))
        return ("unreadable", repr(r)[:80])

    def check(self, what, node, ty, operands):
        """-> None (fixpoint) | ('skip', why) | ('unreadable', why) | ('bad', message)"""
        a = self.export(node, operands)
        if a[0] == "unreadable":
            return ("unreadable", a[1])
        if a[0] == "aborts":
            return ("bad", "%s: exporting %s aborts (%s)" % (what, self.el.show(node), a[1][:60]))
        if a[0] == "Err":
            return ("skip", "the exporter refuses the node (%s)" % a[1])
        r = self.reparse(a[1], operands)
        if r[0] == "unreadable":
            return ("unreadable", r[1])
        if r[0] == "aborts":
            return ("bad", "%s: the emitted expression for %s aborts the front end (%s)" % (what, self.el.show(node), r[1][:60]))
        if r[0] == "Err":
            return ("bad", "%s: the emitted expression for %s is rejected by the front end (%s)" % (what, self.el.show(node), r[1]))
        if r[1] != node:
            return ("bad", "%s: %s is emitted as text that reads back as %s" % (what, self.el.show(node), self.el.show(r[1])))
        if ty is not None and r[2] != ty:
            return ("bad", "%s: %s reads back with type %s instead of %s" % (what, self.el.show(node), self.el.describe(r[2]) if r[2] is not None else None, self.el.describe(ty)))
        return None
