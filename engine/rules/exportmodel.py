"""Export o elaborate on expressions, read as a table.

A typed ir::Expression N (built by the typer's own elaboration functions on model operands, elabmodel.py) is handed to
the HLSL exporter's generate_expression; the ast::Expression that comes out is handed back to the typer's
parse_expr_unchecked. Both functions are walked by the finite-map reader; variables are the operand tags, type names are
carried through opaquely (generate_type_id / parse_type are stand-ins that pass the TypeId along). For DirectX HLSL the
emitted text must be accepted by the front end and be a fixpoint: the node that comes back must be N, with N's type.
Nothing of rssl is executed.
"""
import interp as I
import elabmodel as EM


class RoundTrip:
    def __init__(self, facts, crate="rssl_hlsl"):
        self.f = facts
        self.el = EM.Elab(facts)
        self.gen = facts.fn("generate_expression", crate)
        self.parse = facts.fn("parse_expr_unchecked", "rssl_typer")

    def export(self, node, operands):
        """-> ('Ok', ast) | ('Err', variant) | ('aborts'|'unreadable', why)"""
        el = self.el

        def varname(a):
            vid = a[1].fields["0"] if isinstance(a[1], I.Enum) else a[1]
            return I.Enum("Result", "Ok", {"0": el.TAGS[vid]})

        def gen_type_id(a):
            return I.Enum("Result", "Ok", {"0": I.Enum("TypeId", None, {"base": I.Enum("Type", None, {"carried": a[0]}), "abstract_declarator": I.Enum("Declarator", "Empty")})})
        ext = dict(el.base_ext)
        ext.update({"::get_variable_name": varname, "generate_type_id": gen_type_id})
        ip = I.Interp(self.f, max_depth=14, extern=ext)
        ip.max_loop = 64
        ctx = I.Enum("GenerateContext", None, {"module": el.module_for(operands)})
        try:
            r = ip.apply(self.gen, [node, ctx])
        except I.Unknown as e:
            msg = str(e)
            return ("aborts" if "panicking" in msg else "unreadable", msg[:120])
        if isinstance(r, I.Enum) and r.variant == "Ok":
            return ("Ok", r.fields["0"])
        if isinstance(r, I.Enum) and r.variant == "Err":
            return ("Err", getattr(r.fields.get("0"), "variant", "?"))
        return ("unreadable", repr(r)[:80])

    def reparse(self, ast, operands):
        """-> ('Ok', node, type) | ('Err', variant) | ('aborts'|'unreadable', why)"""
        el = self.el
        ext = dict(el.base_ext)

        def pid(a):
            idn = a[0].get() if isinstance(a[0], I.Ref) else a[0]
            ids = idn.fields.get("identifiers") if isinstance(idn, I.Enum) else None
            tag = ids[0].fields["node"] if isinstance(ids, list) and len(ids) == 1 else None
            if tag not in operands:
                return I.Enum("Result", "Err", {"0": I.Enum("TyperError", "UnknownIdentifier")})
            return I.Enum("Result", "Ok", {"0": I.Enum("TypedExpression", "Value", {"0": el.operand_node(tag, operands[tag]), "1": operands[tag]})})

        def ptype(a):
            t = a[0].get() if isinstance(a[0], I.Ref) else a[0]
            if isinstance(t, I.Enum) and "carried" in t.fields:
                return I.Enum("Result", "Ok", {"0": t.fields["carried"]})
            raise I.Unknown("a type that was not produced by the scripted generate_type_id")
        ext["parse_identifier"] = pid
        ext["parse_type"] = ptype
        ip = I.Interp(self.f, max_depth=18, extern=ext)
        ip.max_loop = 64
        ctx = I.Enum("Context", None, {"module": el.module_for(operands)})
        try:
            r = ip.apply(self.parse, [ast, ctx])
        except I.Unknown as e:
            msg = str(e)
            return ("aborts" if "panicking" in msg else "unreadable", msg[:120])
        if isinstance(r, I.Enum) and r.variant == "Ok":
            v = r.fields["0"]
            if isinstance(v, I.Enum) and v.variant == "Value":
                return ("Ok", v.fields["0"], v.fields["1"])
            return ("Ok", v, None)
        if isinstance(r, I.Enum) and r.variant == "Err":
            return ("Err", getattr(r.fields.get("0"), "variant", "?"))
        return ("unreadable", repr(r)[:80])

    def check(self, what, node, ty, operands):
        """-> None (fixpoint) | ('skip', why) | ('unreadable', why) | ('bad', message)"""
        a = self.export(node, operands)
        if a[0] == "unreadable":
            return ("unreadable", a[1])
        if a[0] == "aborts":
            return ("bad", "%s: exporting %s aborts (%s)" % (what, self.el.show(node), a[1][:60]))
        if a[0] == "Err":
            return ("skip", "the exporter refuses the node (%s)" % a[1])
        r = self.reparse(a[1], operands)
        if r[0] == "unreadable":
            return ("unreadable", r[1])
        if r[0] == "aborts":
            return ("bad", "%s: the emitted expression for %s aborts the front end (%s)" % (what, self.el.show(node), r[1][:60]))
        if r[0] == "Err":
            return ("bad", "%s: the emitted expression for %s is rejected by the front end (%s)" % (what, self.el.show(node), r[1]))
        if r[1] != node:
            return ("bad", "%s: %s is emitted as text that reads back as %s" % (what, self.el.show(node), self.el.show(r[1])))
        if ty is not None and r[2] != ty:
            return ("bad", "%s: %s reads back with type %s instead of %s" % (what, self.el.show(node), self.el.describe(r[2]) if r[2] is not None else None, self.el.describe(ty)))
        return None


class DeclRoundTrip:
    """Declarations: the exporter's generate_variable_definition / generate_global_variable / generate_function_param are
    walked on model declarations (every storage class x precise x const; every input modifier x interpolation modifier);
    the ast::Type that comes out is handed to the typer's parse_localtype / parse_globaltype / parse_input_modifier /
    parse_interpolation_modifier, which must give back the storage class, precise flag, input and interpolation modifier
    the declaration had. Type names are carried through opaquely."""

    def __init__(self, facts, crate="rssl_hlsl"):
        self.f, self.crate = facts, crate
        g = lambda n, c=crate, **kw: facts.fn(n, c, **kw)
        self.gen_local = g("generate_variable_definition")
        self.gen_global = g("generate_global_variable")
        self.gen_param = g("generate_function_param")
        self.parse_local = facts.fn("parse_localtype", "rssl_typer")
        self.parse_global = facts.fn("parse_globaltype", "rssl_typer")
        self.parse_input = facts.fn("parse_input_modifier", "rssl_typer")
        self.parse_interp = facts.fn("parse_interpolation_modifier", "rssl_typer")

    @staticmethod
    def opt(v):
        return I.Enum("Option", "None") if v is None else I.Enum("Option", "Some", {"0": v})

    @staticmethod
    def loc(v):
        return I.Enum("Located", None, {"node": v, "location": I.Opaque("loc")})

    def _ext(self, const, name="v"):
        ok = lambda v: I.Enum("Result", "Ok", {"0": v})

        def gtd(a):
            suppress = a[2] if len(a) > 2 else False
            mods = [self.loc(I.Enum("TypeModifier", "Const"))] if const and suppress is not True else []
            ty = I.Enum("Type", None, {"layout": I.Opaque("layout"), "modifiers": I.Enum("TypeModifierSet", None, {"modifiers": mods}), "location": I.Opaque("loc"), "carried": 3})
            return ok((ty, I.Enum("Declarator", "Identifier", {"0": name, "1": []})))
        return {"::get_variable_name": lambda a: ok(name), "::get_global_name": lambda a: ok(name), "generate_type_and_declarator": gtd, "generate_initializer": lambda a: ok(self.opt(None)),
                "generate_register_annotation": lambda a: ok(self.opt(None)), "append_vk_binding_annotation": lambda a: ok(()), "generate_expression": lambda a: ok(I.Opaque("expr")),
                "parse_type_for_usage": lambda a: ok(I.Enum("TypeId", None, {"0": 3})), "generate_semantic": lambda a: ok(I.Opaque("semantic")),
                "TypeRegistry::is_void": lambda a: False, "TypeRegistry::make_const": lambda a: a[1],
                # the model has two type ids: 3 (plain) and 7 (the same type, const)
                "TypeRegistry::remove_modifier": lambda a: I.Enum("TypeId", None, {"0": 3}),
                "TypeRegistry::extract_modifier": lambda a: (I.Enum("TypeId", None, {"0": 3}), I.Enum("TypeModifier", None, {
                    "is_const": a[1].fields.get("0") == 7, "volatile": False, "row_major": False, "column_major": False, "unorm": False, "snorm": False}))}

    def _mods(self, ty):
        return [m.fields["node"].variant for m in ty.fields["modifiers"].fields["modifiers"]]

    def _run(self, fn, args, ext, depth=6):
        ip = I.Interp(self.f, max_depth=depth, extern=ext)
        ip.max_loop = 64
        try:
            r = ip.apply(fn, args)
        except I.Unknown as e:
            return ("aborts" if "panicking" in str(e) else "unreadable", str(e)[:120])
        if isinstance(r, I.Enum) and r.variant == "Err":
            return ("Err", getattr(r.fields.get("0"), "variant", "?"))
        if isinstance(r, I.Enum) and r.variant == "Ok":
            return ("Ok", r.fields["0"])
        return ("unreadable", repr(r)[:80])

    def local(self, storage, precise, const, array=False, init=None):
        """-> ('Ok', exported modifier names, re-read (storage, precise) or None) | ('Err'|'aborts'|'unreadable', why)
        array: the local is an array; init: None | 'expression' | 'aggregate' (what kind of initialiser it has)"""
        # type ids of the model: 3 plain, 7 const, 30 array, 37 const array
        ty = (30 if array else 3) + (4 if const and not array else 0) + (7 if const and array else 0)
        vd = I.Enum("LocalVariable", None, {"name": self.loc("v"), "type_id": I.Enum("TypeId", None, {"0": ty}), "storage_class": I.Enum("LocalStorage", storage), "precise": precise})
        ext = self._ext(const)
        ext["get_local_variable"] = lambda a: vd
        base = lambda a: (a[1].get() if isinstance(a[1], I.Ref) else a[1]).fields.get("0")
        ext["TypeRegistry::remove_modifier"] = lambda a: I.Enum("TypeId", None, {"0": {7: 3, 37: 30}.get(base(a), base(a))})
        ext["TypeRegistry::is_const"] = lambda a: base(a) in (7, 37)
        ext["TypeRegistry::get_type_layer"] = lambda a: (I.Enum("TypeLayer", "Array", {"0": I.Enum("TypeId", None, {"0": 3}), "1": self.opt(2)}) if base(a) == 30 else
                                                       I.Enum("TypeLayer", "Scalar", {"0": I.Enum("ScalarType", "Float32")}) if base(a) == 3 else
                                                       I.Enum("TypeLayer", "Modifier", {"0": I.Opaque("modifier"), "1": I.Enum("TypeId", None, {"0": {7: 3, 37: 30}[base(a)]})}))
        ext["TypeRegistry::extract_modifier"] = lambda a: (I.Enum("TypeId", None, {"0": {7: 3, 37: 30}.get(base(a), base(a))}), I.Enum("TypeModifier", None, {
            "is_const": base(a) in (7, 37), "volatile": False, "row_major": False, "column_major": False, "unorm": False, "snorm": False}))
        iv = None
        if init == "expression":
            iv = I.Enum("Initializer", "Expression", {"0": I.Opaque("initialiser expression")})
        elif init == "aggregate":
            iv = I.Enum("Initializer", "Aggregate", {"0": [I.Enum("Initializer", "Expression", {"0": I.Opaque("element")})] * 2})
        ctx = I.Enum("GenerateContext", None, {"module": I.Enum("Module", None, {"variable_registry": I.Opaque("variables"), "type_registry": I.Opaque("types")})})
        r = self._run(self.gen_local, [I.Enum("VarDef", None, {"id": I.Enum("VariableId", None, {"0": 0}), "init": self.opt(iv)}), ctx], ext)
        if r[0] != "Ok":
            return r
        ty = r[1].fields["local_type"]
        back = None
        if self.parse_local is not None:
            b = self._run(self.parse_local, [ty, I.Opaque("typer context")], ext)
            if b[0] == "Ok" and isinstance(b[1], tuple) and len(b[1]) == 3:
                back = (b[1][1].variant, b[1][2])
            else:
                back = b
        return ("Ok", self._mods(ty), back)

    def global_(self, storage, const):
        g = I.Enum("GlobalVariable", None, {"name": self.loc("g"), "type_id": I.Enum("TypeId", None, {"0": 7 if const else 3}), "storage_class": I.Enum("GlobalStorage", storage),
                                            "api_slot": self.opt(None), "lang_slot": I.Opaque("slot"), "init": self.opt(None), "is_bindless": False, "static_sampler": self.opt(None), "is_intrinsic": False})
        mod = I.Enum("Module", None, {"global_registry": [g], "flags": I.Enum("ModuleFlags", None, {"requires_vk_binding": False, "requires_buffer_address": False, "assigned_api_slots": True})})
        ext = self._ext(const, "g")
        r = self._run(self.gen_global, [I.Enum("GlobalId", None, {"0": 0}), I.Enum("GenerateContext", None, {"module": mod, "name_map": I.Opaque("names")})], ext)
        if r[0] != "Ok":
            return r
        ty = r[1].fields["global_type"]
        back = None
        if self.parse_global is not None:
            b = self._run(self.parse_global, [ty, I.Opaque("typer context")], ext)
            if b[0] == "Ok" and isinstance(b[1], tuple) and len(b[1]) == 2:
                back = b[1][1].variant
            else:
                back = b
        return ("Ok", self._mods(ty), back)

    def param(self, input_modifier, interpolation, precise):
        p = I.Enum("FunctionParam", None, {
            "id": I.Enum("VariableId", None, {"0": 0}), "param_type": I.Enum("ParamType", None, {"type_id": I.Enum("TypeId", None, {"0": 3}), "input_modifier": I.Enum("InputModifier", input_modifier)}),
            "interpolation_modifier": self.opt(I.Enum("InterpolationModifier", interpolation) if interpolation else None), "precise": precise, "semantic": self.opt(None), "default_expr": self.opt(None)})
        ext = self._ext(False, "p")
        ctx = I.Enum("GenerateContext", None, {"module": I.Opaque("module"), "per_primitive_semantics": I.Opaque("semantics")})
        r = self._run(self.gen_param, [p, ctx, False], ext)
        if r[0] != "Ok":
            return r
        ty = r[1].fields["param_type"]
        mods = ty.fields["modifiers"]
        back = {}
        for k, fn in (("input", self.parse_input), ("interpolation", self.parse_interp)):
            if fn is None:
                back[k] = ("unreadable", "typer function not found")
                continue
            b = self._run(fn, [mods], ext)
            if b[0] == "Ok" and isinstance(b[1], I.Enum) and b[1].adt == "Option":
                v = b[1].fields.get("0")
                v = v[0] if isinstance(v, tuple) else v
                back[k] = v.variant if isinstance(v, I.Enum) else None
            else:
                back[k] = b
        return ("Ok", self._mods(ty), back)
