"""Obligation bookkeeping, known-findings handling, evidence and replay files."""
import json
import os
import re
import time

from facts import VERIF

KNOWN_FILE = os.path.join(VERIF, "known_findings.json")
EVID_DIR = os.environ.get("VERIF_EVIDENCE_DIR") or os.path.join(VERIF, "evidence")
REPLAY_DIR = os.path.join(EVID_DIR, "replay")


def load_known():
    if not os.path.exists(KNOWN_FILE):
        return {}
    with open(KNOWN_FILE) as f:
        d = json.load(f)
    out = {}
    for e in d.get("findings", []):
        out[(e["property"], e["key"])] = e
    return out


class Check:
    """Collects rule instances ("obligations") for one property."""

    def __init__(self, pid, facts, tier="quick", only_key=None):
        self.pid = pid
        self.facts = facts
        self.tier = tier
        self.only_key = only_key
        self.obligations = []   # dicts: key, ok, why, where, rule, trivial
        self.rules = {}
        self.t0 = time.time()
        self.notes = []
        self.samples = []

    # -- recording ---------------------------------------------------
    def ob(self, key, ok, why="", where=None, trivial=False, sample=None):
        """Record one rule instance. key is line-number free: '<rule>/<instance>'."""
        key = re.sub(r"\s+", "_", key)
        assert key.startswith(self.pid + ".") or key.split(".")[0].startswith("C"), key
        rule = key.split("/")[0]
        self.rules[rule] = self.rules.get(rule, 0) + 1
        rec = {"key": key, "ok": bool(ok), "why": why, "where": where, "rule": rule, "trivial": trivial}
        self.obligations.append(rec)
        if sample is not None and len(self.samples) < 12 and not any(s.get("rule") == rule for s in self.samples[-3:]):
            smp = {"rule": rule, "key": key, "ok": bool(ok)}
            smp.update(sample)
            self.samples.append(smp)
        return bool(ok)

    def anchor(self, key, obj, what, where=None):
        """Fail closed when an anchor (function / match / table) cannot be found."""
        if obj is None or obj == [] or obj == {}:
            self.ob(key, False, "anchor-missing: " + what, where)
            return None
        self.ob(key, True, "anchor found: " + what, where, trivial=True)
        return obj

    def unreadable(self, key, what, reason, where=None):
        """Fail closed when a function that a rule evaluates on a finite model (and for which there is no shape rule to
        fall back to) uses something the reader does not model: the property is then not decided, which is reported."""
        self.ob(key, False, "anchor-missing: %s is not readable as a table any more (%s); the rule cannot decide" % (what, str(reason)[:100]), where)
        return False

    def floor(self, key, count, floor, what, where=None):
        """Fail closed when a table / inventory has fewer entries than confirmed by hand."""
        ok = count >= floor
        self.ob(key, ok, ("%s: %d entries (floor %d)" % (what, count, floor)) if ok
                else ("count-below-floor: %s has %d entries, floor is %d" % (what, count, floor)), where, trivial=True)
        return ok

    def note(self, text):
        self.notes.append(text)

    # -- finishing ---------------------------------------------------
    def finish(self, explanation, assumptions, seed=0):
        known = load_known()
        os.makedirs(REPLAY_DIR, exist_ok=True)
        obs = self.obligations
        if self.only_key:
            obs = [o for o in obs if o["key"] == self.only_key]
        failing = [o for o in obs if not o["ok"]]
        # de-duplicate by key (several sites may share a key; keep all 'why's)
        by_key = {}
        for o in failing:
            by_key.setdefault(o["key"], []).append(o)
        violations = []
        known_hits = []
        for key, recs in by_key.items():
            if (self.pid, key) in known:
                known_hits.append((key, recs, known[(self.pid, key)]))
            else:
                violations.append((key, recs))
        print("== %s  tier=%s  functions=%d  rule-instances=%d  rules=%d ==" % (
            self.pid, self.tier, self.facts.n_functions, len(obs), len(self.rules)))
        for r in sorted(self.rules):
            n_ok = sum(1 for o in obs if o["rule"] == r and o["ok"])
            n_all = sum(1 for o in obs if o["rule"] == r)
            print("  rule %-28s %4d/%-4d hold" % (r, n_ok, n_all))
        for nt in self.notes:
            print("  note: " + nt)
        for key, recs, k in known_hits:
            print("KNOWN-FINDING: property=%s %s %s" % (self.pid, key, k.get("what", recs[0]["why"])))
            for r in recs:
                print("    at %s: %s" % (r["where"], r["why"]))
        for key, recs in violations:
            safe = re.sub(r"[^A-Za-z0-9_.-]+", "_", key)
            rp = os.path.join(REPLAY_DIR, "%s-%s.json" % (self.pid, safe))
            with open(rp, "w") as f:
                json.dump({"property": self.pid, "key": key,
                           "instances": [{"where": r["where"], "why": r["why"]} for r in recs],
                           "replay": "bin/check %s --replay %s" % (self.pid, rp)}, f, indent=1)
            for r in recs:
                print("  FAIL %s  %s  %s" % (r["where"], key, r["why"]))
            print("VIOLATION property=%s replay=%s" % (self.pid, rp))
        nontrivial = {o["key"] for o in obs if not o["trivial"]}
        ev = {
            "property_id": self.pid,
            "tier": self.tier,
            "seed": seed,
            "level": "other",
            "coverage": {
                "explanation": explanation,
                "evaluations": len(obs),
                "distinct_nontrivial": len(nontrivial),
                "rule": "one evaluation per rule instance (table entry, call site, guard/effect pair, slice) "
                        "extracted from /repo's type-checked program on this run; an instance is trivial when it "
                        "only records that an anchor was found or that a table met its floor; distinct = distinct keys",
                "samples": self.samples[:12] if self.samples else [{"note": "no samples"}],
                "obligations": len(obs),
                "discharged": len(obs) - len(failing),
                "exhaustive": True,
                "functions_analysed": self.facts.n_functions,
                "bodies_analysed": len(self.facts.bodies),
                "rules": {r: {"instances": sum(1 for o in obs if o["rule"] == r),
                              "hold": sum(1 for o in obs if o["rule"] == r and o["ok"])} for r in sorted(self.rules)},
                "known_findings": [k for k, _, _ in known_hits],
                "notes": self.notes,
            },
            "assumptions": assumptions,
            "wall_s": round(time.time() - self.t0, 3),
            "violations": len(violations),
        }
        if not self.only_key:
            os.makedirs(EVID_DIR, exist_ok=True)
            with open(os.path.join(EVID_DIR, self.pid + ".json"), "w") as f:
                json.dump(ev, f, indent=1)
        return 1 if violations else 0
