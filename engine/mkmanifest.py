#!/usr/bin/env python3
"""Regenerates /verif/MANIFEST.json from the table below (keeps it valid at all times)."""
import json
import os

VERIF = os.path.dirname(os.path.dirname(os.path.abspath(__file__)))

TRUSTED = ("Trusted base: rustc nightly front end (THIR/MIR of the workspace as type-checked with the real build's "
           "flags), the fact driver's dump, and the Python rule engine. ")

# pid -> (technique, level text, level note, design ref)   — only properties with built rules
CLAIMS = {
    "C09": (
        "static analysis: writer/reader table agreement (formatter precedence/associativity/paren decision vs parser "
        "level chain; operator spellings vs lexer symbol table vs parser token patterns) extracted from THIR",
        "Decides the structural carriers of the round trip exhaustively over all node kinds: every (parent kind, child "
        "position, child kind) triple of the printer's parenthesis decision against the parser's level for that position, "
        "every operator spelling through the lexer's table to the parser's operator tables, every pair of operator "
        "spellings the printer can emit adjacently, literal suffix tables. Does not decide tree equality of a round trip.",
        TRUSTED + "Not decided: declarators/types/statements beyond printer-arm totality, literal values (C10).",
        "DESIGN.md §4 C09"),
}

CLAIMS["C11"] = (
    "static analysis: finite-map extraction of the ConditionChain automaton and #if operator tables compared with the "
    "C reference; MIR dominance of every directive effect by the skip==false edge; call-graph level chain",
    "Decides the whole mechanism: transition table (6 entries) against the reference automaton, empty-chain errors, "
    "is_active, pushed states and #ifndef negation, end-of-file check; every effectful call site in preprocess_command "
    "and flush_normal is dominated by the activity test (no sampling: all call sites of the function's MIR); the #if "
    "evaluator's operator semantics over a complete set of operand orderings, precedence chain, token tables through "
    "the lexer's extracted symbol table, leaf table, result test. Does not decide that a directive line's tokens reach "
    "preprocess_command unchanged.",
    TRUSTED + "Reference automaton / operator semantics of ISO C typed into the rule (DESIGN.md App. A).",
    "DESIGN.md §4 C11")

CLAIMS["C13"] = (
    "static analysis: exhaustive extraction of the operator x constant-kind tables of evaluate_operator/evaluate_cast "
    "from THIR against a reference table; MIR abort inventory (overflow-class Assert terminators and operator-trait "
    "calls on integer references) with zero-guard dominance; call-graph reachability of the evaluator",
    "Decides, for every entry of the evaluator's tables (92 operator entries, 48 cast entries today): the Rust operation "
    "applied, operand order, result constructor; that no arithmetic on a constant payload can abort on overflow, "
    "out-of-range shift or zero divisor; that every position demanding a constant reaches evaluate_constexpr and handles "
    "its error. Does not decide float<->int conversion values.",
    TRUSTED + "Reference operator semantics typed into the rule (DESIGN.md App. A).",
    "DESIGN.md §4 C13")

CLAIMS["C16"] = (
    "static analysis: finite-map extraction of rank tables (order, compare, scalar rank matrix, vector order) from THIR; "
    "MIR dominance of the Ok result by the unique-winner test; THIR shape of the symmetric tournament",
    "Decides the necessary structural conditions of order-independent overload resolution: the result is built only "
    "when exactly one candidate survives, ambiguity is an error, ranks are a strict order with Exact least, no inexact "
    "conversion is ranked Exact (56 pairs), compare is the order's three-way comparison (36 pairs), the tournament "
    "compares every candidate against every other over the whole vector with (candidate, against) operand order, the "
    "tie-break is a minimum over all survivors. Does not decide order-independence for all candidate sets as such.",
    TRUSTED + "Reference rank order typed into the rule (DESIGN.md App. A).",
    "DESIGN.md §4 C16")
CLAIMS["C03"] = (
    "static analysis: MIR dominance of assignment / increment node construction by the const and lvalue guards; "
    "finite-map extraction of the value-category and parameter-modifier tables; find=>apply pairing of every implicit "
    "conversion site; totality of the IR typing rules",
    "Decides the guards and conversion points the property names: all 11 assignment operators and 4 ++/-- operators "
    "are built only after the const / lvalue / bool rejections, ImplicitConversion::find refuses rvalue->lvalue and "
    "const/volatile drops on lvalues, out/inout demand lvalues, every conversion looked up is applied (15 sites), the "
    "operands of binary nodes come from apply, get_type / get_return_type are total. Does not decide well-typedness of "
    "every expression of every accepted program.",
    TRUSTED + "Rust move semantics: an expression moved into apply cannot also be stored unconverted.",
    "DESIGN.md §4 C03")

CLAIMS["C06"] = (
    "static analysis: THIR shape of the bump allocator (pre-update read, += increment, vacant initialisation, "
    "increment expressions), MIR dominance of allocation by the object/static-sampler guards, extraction of the "
    "Target->AssignBindingsParams table against the reference",
    "Decides the allocator structurally: for each of the three allocation sites the slot returned is the map entry "
    "before the update (0 when vacant), the entry advances by exactly 1 / slot_count / 8*slot_count, slot_count = "
    "array length x (2 for the six raw/structured/address buffer kinds under the Metal layout, else 1), groups default "
    "to the selected pipeline's group, static samplers and non-object globals take no slot, the inline block follows "
    "all slots, one in-order pass over the declarations, per-target parameters equal the reference. Because the "
    "allocator is a single in-order pass these shapes imply contiguity and non-overlap for every declaration sequence. "
    "Does not decide that every bindable kind is an Object type layer.",
    TRUSTED + "Reference parameter table and two-slot kinds typed into the rule (DESIGN.md App. A).",
    "DESIGN.md §4 C06")
CLAIMS["C07"] = (
    "static analysis: whole-workspace call-graph reachability of ambient APIs from compile; hash-iteration-order lint "
    "over every function (sorted-after / collected-then-sorted / keyed-sink-only / commutative / reviewed); sort-key totality",
    "Sufficient condition for determinism: no function reachable from compile reads time, environment, files, "
    "processes, threads or hasher seeds (metal_invoker excepted and gated on Target::MetalBytecode), and every one of "
    "the workspace's hash-order exposure sites (13 today) is order-insensitive by construction or sorted with a total "
    "key before its data can reach the output. A new hash iteration that is not in an automatic class is reported.",
    TRUSTED + "std is deterministic apart from RandomState; six sites carry a one-line reviewed reason in the rule file.",
    "DESIGN.md §4 C07")

CLAIMS["C15"] = (
    "static analysis: reserved-table extraction and membership of every builtin identifier the exporters emit; "
    "THIR value-origin slices of every declaration name to NameMap or a raw IR read; shape of NameMap::build's guards",
    "Decides name hygiene structurally: the reserved tables are well formed and contain every builtin the exporter "
    "itself prints (112 HLSL intrinsic names, scalar and object type names, generated MSL names); every declaration "
    "name position of both exporters is classified by provenance (NameMap / generated / raw IR name) and raw positions "
    "are reported; NameMap::build accepts a name only after a successful insert into the scope's used-name set seeded "
    "with all reserved names, keeps unique names verbatim, and renames locals away from every other local and global. "
    "Does not decide alpha-equivalence of outputs.",
    TRUSTED + "MSL library names are emitted qualified (metal::, helper::).",
    "DESIGN.md §4 C15")

CLAIMS["C05"] = (
    "static analysis: THIR value-origin slices from metadata fields and annotation printers to the single source "
    "api_slot; sibling-table agreement (hlsl vs msl descriptor tables, compile.rs vs pipeline.rs entry-point names); "
    "provider agreement between metadata names and emitted declaration names",
    "Decides that slot, group, count, type, bindless flag, stage, thread-group size and entry-point name in the "
    "metadata are copies of the same IR fields the annotation printers print (any arithmetic or different provider is "
    "reported), that a metadata entry is registered exactly under the `if let Some(api_slot)` guard, that both "
    "exporters use the same 21-entry descriptor-type table, and that MSL's used flag is derived from every stage's "
    "required globals. Does not count run-time lists.",
    TRUSTED,
    "DESIGN.md §4 C05")

CLAIMS["C17"] = (
    "static analysis: THIR shape of compile()'s selection loop and error returns; use inventory of build_pipeline's "
    "shared &Module parameter (only Clone::clone); MIR dominance of pipeline registration by the duplicate-name test",
    "Decides selection and isolation structurally: the loop iterates ir.pipelines in order and skips exactly on a "
    "different requested name, the missing-pipeline errors are returned under is_empty(), no-pipeline mode builds once "
    "with None; build_pipeline touches the shared module only to clone it and runs selection, slot assignment and "
    "export on the clone; per-pipeline metadata comes from the selected definition; duplicate pipeline names are "
    "rejected before registration. Does not decide output equality across compilations.",
    TRUSTED + "Module::clone yields an independent copy.",
    "DESIGN.md §4 C17")
CLAIMS["C18"] = (
    "static analysis: MIR backward slices (data + control dependence) of the front-end calls' arguments w.r.t. "
    "args.target; reader inventory of the Vulkan-only switches; sibling agreement of exporter tables and target arms",
    "Decides that preprocess / prepare_tokens / parse / type_check / check_layout receive arguments that do not depend on "
    "the target except through the RSSL_TARGET_* define values and run for every target; that only the six confirmed "
    "functions of rssl_hlsl read for_spirv / requires_vk_binding / requires_buffer_address; that both exporters share the "
    "descriptor table and both target arms of build_pipeline fill stages, metadata and pipeline state identically. "
    "Does not decide textual difference of the two HLSL flavours.",
    TRUSTED + "A new reader of a Vulkan switch is reported even if harmless (documented soft spot).",
    "DESIGN.md §4 C18")
CLAIMS["C19"] = (
    "static analysis: MIR dominance of check_layout by validate_layout_consistency and before build_pipeline; sibling "
    "agreement between check_layout's intrinsic list and intrinsic_data's templated buffer methods; THIR shape of the "
    "layout accumulator",
    "Decides the wiring (validation runs iff enabled, before any pipeline is built, its error is returned), coverage "
    "(every templated typed load/store that intrinsic_data declares on buffer objects and both structured buffer kinds "
    "are validated) and the shape of the size/alignment computation (align-up then add, max alignment, Metal vector "
    "rounding, array multiply, round-to-alignment and size comparison of the two modes). Does NOT decide soundness "
    "against the real HLSL/Metal layout rules: the checker compares total sizes only, which the property text notes.",
    TRUSTED,
    "DESIGN.md §4 C19")

CLAIMS["C10"] = (
    "static analysis: THIR shape of TokenStream::next's span bookkeeping; MIR abort inventory of the digit / exponent "
    "code; sibling agreement of the three integer-literal parsers; payload copy checks through parser, typer and exporters",
    "Decides losslessness structurally (every token's span is [current_offset, input.len()-remaining.len()) and the "
    "offset advances to exactly that end; empty span for the synthetic Endline; locations copied) and the integer half "
    "of exactness (checked accumulation with the right radix, overflow rejected, suffix tables identical and total, "
    "range-checked narrowing, literal payloads copied unchanged through 42 parser/typer/exporter arms, exactly one f32 "
    "narrowing for f / h). Does NOT decide that the f64 computed from decimal digits is the nearest double: that is a "
    "numerical property of calculate_float64_from_parts (known to be off by one ulp for some inputs).",
    TRUSTED,
    "DESIGN.md §4 C10")

CLAIMS["C08"] = (
    "static analysis: call-graph reachability of todo!/unimplemented!; MIR abort inventory with forward taint from "
    "user-written numbers; MIR dominance of the macro recursion guard; THIR shape of the list-parser loops; find/get_rank "
    "sibling agreement",
    "Decides only the clause families visible in the code shape: every reachable todo!/unimplemented! is either guarded "
    "by a recorded structural reason or reported with its trigger (18 sites); every overflow-capable arithmetic / "
    "unwrap(try_from) fed by a literal, constant or array length in a function reachable from compile is reported (the "
    "evaluator, lexer and literal printers are clean after the fixes; 8 sites remain as known findings); macro "
    "recursion is bracketed by the disable flag; list combinators stop on zero progress; stage errors are rendered. "
    "Does NOT decide the absence of all panics, stack depth or running time.",
    TRUSTED + "A panic-site ratchet is deliberately not used.",
    "DESIGN.md §4 C08")

CLAIMS["C12"] = (
    "static analysis: THIR shape / MIR dominance of the macro table updates, argument splitting, body substitution, "
    "pragma-once bookkeeping, include state sharing and define installation",
    "Decides necessary structural conditions of textual substitution: redefinition removes the old macro before pushing, "
    "#undef and lookup go by name, arguments split on commas at nesting depth 0 only, MacroArg(i) is replaced by args[i] "
    "and parameter references map to their own index, the rescan is bracketed by the disable flag, #pragma once files "
    "contribute once, #include shares buffer / macros / condition chain, initial defines are object-like macros installed "
    "before the entry file. Does NOT decide equality with a reference preprocessor over all macro programs.",
    TRUSTED,
    "DESIGN.md §4 C12")
CLAIMS["C14"] = (
    "static analysis: finite-map extraction of Token::is_whitespace over all Token variants; who-constructs / who-reads "
    "inventory of FollowedBy; THIR shape of the line/column counter and of the per-file location reservation",
    "Decides the structural carriers: the trivia predicate is exactly {Endline, PhysicalEndline, Whitespace, Comment} "
    "(87 variants examined) and is the only filter before parsing and #if evaluation; adjacency is produced only by the "
    "'<' '>' lexers and read only by the operator / template-argument parsers, plus the untrimmed '(' test of "
    "function-like macros; newline increments the line and resets the column, every other byte increments the column, "
    "first() is 1; add_file and both decoders reserve file_size + 1 locations. Does NOT decide output invariance under "
    "trivia insertion or the k-line shift of diagnostics as such.",
    TRUSTED,
    "DESIGN.md §4 C14")

CLAIMS["C01"] = (
    "static analysis: composition of the typer's and the HLSL exporter's operator tables; THIR value-origin slices of "
    "every child position of every emitted node back to the same child of the IR node; literal-kind and intrinsic-name "
    "table agreement; swizzle tables",
    "Decides the structural necessary conditions of meaning preservation: the emitted operator is the source operator "
    "for all 37 operators; in all 18 expression arms and 15 statement arms each child of the syntax node comes from the "
    "same child of the IR node (swapped / duplicated / dropped operands are reported); literal kinds round-trip through "
    "typer and exporter; all 238 named intrinsics are exported under a declared name; swizzle letters are inverse; "
    "implicit conversions become explicit casts. Does NOT decide bit-identical evaluation (needs evaluators of RSSL and HLSL).",
    TRUSTED,
    "DESIGN.md §4 C01")
CLAIMS["C02"] = (
    "static analysis: the C01 rules on the MSL exporter; sibling agreement of the MSL and HLSL operator tables; "
    "declared-vs-passed identifier tables of implicit parameters; visitor totality of the global usage analysis; THIR "
    "shape of the out/inout trampoline",
    "Decides the structural necessary conditions for the Metal back end: operator / child-position / literal tables as "
    "for HLSL; every implicit parameter is declared and passed under the same identifier, in the same order, derived "
    "from the transitive usage analysis, whose visitors recurse into all 41 sub-expression positions of the IR; every "
    "user call appends the global arguments; out/inout parameters are copied in (inout only) and copied back after the "
    "call. Does NOT decide Metal evaluation results, helper function bodies or address-space correctness.",
    TRUSTED,
    "DESIGN.md §4 C02")
CLAIMS["C04"] = (
    "static analysis: disjointness of exporter-built AST variants and formatter-refused variants; writer/reader "
    "agreement of attribute names, register letters, space prefix, topology strings and literal suffixes; the C09 "
    "parenthesis/adjacency rules and C15 name-provenance rules re-evaluated for the HLSL path",
    "Decides that the emitted DirectX HLSL stays inside the input language and re-reads as written: no refused node "
    "kind is emitted, every emitted attribute / register / topology spelling is one the front end accepts and maps "
    "back, expressions re-group identically (1146 parent/child instances), adjacent operators do not merge, "
    "declaration names go through NameMap. Does NOT decide the byte-for-byte fixpoint or slot re-derivation (run-time "
    "string comparison; float printing).",
    TRUSTED,
    "DESIGN.md §4 C04")

# rules added after the seeded-change rounds (DESIGN.md §0): appended to the level text of the property
ADDED = {
    "C11": "Also: condition_parser::parse read end to end on 4406 #if conditions against an independently written evaluator of the same C grammar. An #if left open by an included file survives in the including file's chain or is refused. `defined` read through apply_macros with apply_defined on and off (operator only in #if / #elif); the per-site dominance rules are the fallback of the directive table; the set of #pragma once files is real in the model. The eight C operator spellings are cut into tokens with the lexer's table and read by condition_parser::parse itself (five operand pairs identify the operator); the level-chain rules are the fallback of the condition table. preprocess_initial_file walked with an entry file that leaves a given chain behind: only the empty chain is accepted.",
    "C09": "Also: format_literal composed with the lexer's token function, both read by the finite-map reader: a literal of every kind, printed for every target, lexes back to one token of the same kind and value; printer wrappers (format_expression) are recursion events of the parenthesis rules. Context rule: for the eight places where an expression is printed outside an expression (initialiser, default argument, attribute argument, array size, template argument, enum value, statement, for-init) the operators switched off by the parser's terminator there are parenthesised by the printer at that site; print helpers that choose the side from the child are read per child kind. Statement rule: format_statement composed with parse_statement on 49 model statement trees (every kind, every shape of a for header, labels, nested conditionals) is the identity. Declaration rule: print o parse is the identity on function parameters, variable definitions, globals, enums, structs, constant buffers and function definitions (opaque types / declarators / expressions). Operator spellings: the operator parsers of each level evaluated on the lexed spelling of every operator (the arm-by-arm simulation is the fallback). Declarators: format_declarator / parse_declarator walked for real on the declarator trees the parser can produce (pointer qualifiers, references, arrays), alone and next to a second declarator. Operator spellings are read by evaluating format_unary_op / format_bin_op per operator. Statements with attributes in every position a statement can stand in print and read back unchanged. Semantics: parse_semantic(format_semantic_annotation(s)) = s on 27 spellings.",
    "C01": "Also: the C09 parenthesis / operand-side / adjacency rules and the C15 name-uniqueness and qualified-reference rules re-evaluated for the HLSL path; crate-level inventory of skipping / reordering sequence operations; index ranges start at 0. Exporter tables: HLSL generate_expression composed with the typer's parse_expr_unchecked on the typed-expression model (export then re-elaborate gives the same node and type); generate_variable_definition / generate_global_variable / generate_function_param composed with the typer's parse_localtype / parse_globaltype / parse_input_modifier / parse_interpolation_modifier (storage class, precise, const, in/out, interpolation survive); the exporter's verdict is the same for the plain and the const variant of every model expression. generate_statement read as a table (same statement kind, same parts in order); an operand with an effect (`i++`) is exported exactly once wherever it stands. generate_literal on enum constants of a two-enum module names the constant's own enumerator. Literals read as tables: generate_literal on every constant kind x payloads at both ends of the range, composed with the typer's parse_literal (same kind, same number; a negative integer as minus its magnitude). Intrinsic names: when several source names map to one Intrinsic, every overload callable under some name exists under the emitted name. Local declarations with array types and initialisers keep their storage class. Swizzles: the HLSL export-and-re-elaborate table; the shape rules about single functions decide only where the table that reads the same function is not readable. generate_scope_block on scripted statement lists with stacked / trailing case and default labels: labels and statements come out in the order they went in. Every implicit conversion is also applied to an operand that is itself a cast: the result wraps the whole operand. The operator table of the constant folder (C13.op) is also an obligation of C01: folded literals are what the exporter prints. System-value semantics: parse_semantic composed with format_semantic_annotation names the same system value on 27 spellings. parse_localtype over every ordered list of up to three local modifiers: static / precise are recognised wherever they stand. The folder's cast table (C13.cast) as for the operator table.",
    "C02": "Also: generate_function_and_trampoline read as a decision table (160 cases); operands repeated by a struct cast are leaves of ir::Expression; the C01 additions for the MSL path. The MSL exporter's verdict (exported / refused with reason) is the same for the plain and the const variant of every expression of the typed-expression model; `static` is printed iff the local is static. generate_statement read as a table; an operand with an effect is exported exactly once wherever it stands (struct casts included). analyse_globals read on one-global modules: mutable globals are threaded by reference in their address space; generate_literal on enum constants. Usage analysis read as a function of the module (which globals an entry point reaches through subscripts, members and calls); simplify_cbuffers on modules with 0-2 constant buffers (empty ones included); vector / matrix swizzles exported alike by both exporters; literals as for C01. generate_scope_block as for C01. generate_semantic_annotation on 27 semantic spellings: every HLSL system value gets the Metal attribute that supplies the same quantity (reference: the Metal specification's attribute tables). The Metal generate_expression on L % R for nine operand kinds: % for integers, metal::fmod for floating operands.",
    "C03": "Also: swizzle value-category functions over all slot sequences of length <= 4; ImplicitConversion::find's table for an Lvalue destination (no conversion across element types or dimensions). Elaboration read as tables: parse_expr_binop / parse_expr_unaryop / parse_expr_ternary, the member and subscript arms of parse_expr_unchecked, write_function, the return arm of parse_statement and parse_initializer are evaluated by the finite-map reader over a matrix of operand types (scalars, vectors, matrices, enum, struct, arrays, every object type; plain / const / volatile; lvalue / rvalue), and every accepted node is typed again by rssl's own IR typing rule (Expression::get_type + IntrinsicOp::get_return_type, asserts included): no abort, same type as reported, operands in order, arguments / returned values / initialisers of exactly the declared type, out/inout arguments mutable lvalues, parts of const values const. parse_function_body on a model function: parameter variables, scope entries and FunctionParam carry the type written on the parameter (modifiers included). parse_globaltype read over 15 storage-class spellings: the class as written (extern when none), conflicting classes refused, extern globals const, static / groupshared globals typed as written. parse_vardef over {mutable, const} x {initialiser folds, does not fold, aggregate, absent}: a local carries a constant value exactly when it is const and its initialiser folds. The access model contains const row_major / column_major matrices (a selected row stays const). read_matrix_subscript on 16 matrix shapes x 263 element-name strings: accepted exactly when every named element lies inside the matrix. Initialisers include empty and one- / two-element aggregates for every type. parse_localtype over ordered modifier lists (C03.locals/type).",
    "C04": "Also: NameMap uniqueness / generated-names-visible-to-locals rules under this property. Expression- and declaration-level fixpoint read as tables: every typed expression of the operand model exported by generate_expression and re-elaborated by parse_expr_unchecked gives the same node and type (about 1800 round trips); declarations likewise through parse_localtype / parse_globaltype / parse_input_modifier / parse_interpolation_modifier; the places where an expression is printed outside an expression parenthesise what the parser's terminator switches off there. Statement-level fixpoint: format_statement composed with the parser's parse_statement on model statement trees; qualified references to entities in nested namespaces name them as declared. Declaration-level fixpoint: print o parse on function parameters, variable definitions, globals, enums, structs, constant buffers and function definitions. Intrinsic overload rule and literal tables as for C01. generate_function_inner walked as prototype and as definition of one model function: same return type, return semantic, name and parameters. generate_root_definitions / generate_root_definition on a module with same-named functions in two namespaces and at the root, each declared and defined: every root declaration is emitted, in order, in its namespace. What the exporter writes as register(slot, space) the declaration parsers read back as written (the C06 declaration tables under this property).",
    "C05": "Also: the numthreads scan of add_stage (whole attribute list, no early exit, argument order). add_stage read as a table over every ShaderStage and every position of [numthreads] in the attribute list. build_pipeline read as a table: text and description from the exporter, one stage per pipeline stage. analyse_bindings of both exporters read as a table on one-resource modules (31 kinds x 6 shapes x bindless x bound / unbound, and a constant buffer): a reflection entry exists exactly when the declaration has an api slot, carries its location, set and bindless flag; descriptor_count is the array length (None when unbounded, 1 otherwise); the descriptor kind depends on the object type only, is the same on both targets, injective, read/write kept. Usage analysis (is_used) read as a function of the module. The usage model contains a function template instantiation (template parameter list kept, body of its own). The declared type of buffer-address globals (generate_type_impl with the context the real GenerateContext::new builds) under the flags of the three HLSL configurations: a 64-bit address exactly where the metadata describes an inline constant. The constant folder's operator and cast tables (C13.op, C13.cast) are also obligations of C05: the reported thread-group size is the folded value of arguments the emitted text carries unevaluated. add_stage with scripted folded [numthreads] arguments at and beyond the ends of the uint range: exact values, out-of-range refused.",
    "C06": "Also: LanguageBinding.set / .index are the register annotation's own space / slot index (value-origin trace). parse_rootdefinition_globalvariable read on 216 statements of 1-3 declarators: every global gets the register binding of its own declarator, overridden only by the attributes. The function that turns registered bindings into bind_groups evaluated with groups {0, 2} in use: an entry for every index up to the highest one used (both exporters); constant buffers go through the same declarator table. Tables (arrays) of buffer addresses are resources with slots; is_buffer_address is walked, not answered by the model. parse_attributes_for_global on every order of up to three binding attributes: each attribute sets exactly what it names.",
    "C07": "Also: hash-order loops with cross-iteration state or last-writer-wins assignments, including loops over a Vec filled in hash order. Leaving a loop over a Vec that was filled in hash order (return / break / ?) is order-sensitive. Context::end_enum in both hash orders returns the same diagnostic; positional queries (first / find / position / min_by_key ...) on a Vec filled from a hash container are order-sensitive consumers. Calls into metal_invoker are gated by Target::MetalBytecode directly or through helpers only called under that test. The usage closure (GlobalUsageAnalysis::calculate) is exact in both hash orders.",
    "C08": "Also: str range-index bounds are character boundaries by construction; admitted scalar types vs handled constant kinds (contradiction rule). The typer's elaboration tables (C03) are read again for aborts: no operand combination reaches a panic, and no accepted node is one whose IR type can only be asked by aborting; parse_pipeline on 280 model property lists; walk_into_scopes on a model scope tree. Every re-entry of apply_single_macro into the expander carries the disabled set; pointer-range assertions on lexer error slices against constructors that carry a foreign slice (contradiction rule). Both location decoders of the SourceManager evaluated for every position of a three-file model (end-of-file slots and one past the end included): none aborts. Layout checker on degenerate element types (structs without data): no abort; #include nesting is bounded (the directive evaluated at depth 0 and a million files deep). `defined` produced by a macro from another file (apply_macros with apply_defined on located tokens) does not abort; an explicit enumerator of every scalar type followed by an implicit one never aborts (enum model); todo! / overflow sites inside a helper that the reference function table does not know are reported under the function that calls it. parse_pipeline on a module that already has a pipeline of the same name (refused) or of another name (accepted); add_stage for an entry point without a body (a diagnostic, not an abort). Built-in integer arithmetic in the tables has the range of its type (overflow is an abort). Initialiser elaboration includes empty aggregates; an out-of-range index or slice in a walked function is an abort.",
    "C10": "Also: the location decoders of SourceManager (C14.line rules) under 'every diagnostic position lies inside the file'. literal_int on 369 integer spellings (three radices, boundary values up to 25 digits, every suffix) and literal_float on 3969 decimal spellings (IEEE arithmetic of the reader = rustc's target) against exact / correctly rounded values; the C09 print-and-lex-back table under this property ('the value appears unchanged in the output'). TokenStream::read_to_end and unlex evaluated on thirteen model texts at two base locations: the token spans tile the text and unlex gives it back. generate_literal / parse_literal payloads read as tables (the number that comes out is the number that went in, at both ends of each range).",
    "C12": "Also: the include cache is keyed by the requested name (one file id per name, #pragma once per id). apply_macros read on 45 model token lists over ten macro sets against textual substitution written in the rule (object- and function-like macros, nested and parenthesised arguments, recursion cut-off, hand-over of a function-like name to the following text, argument-count and unterminated-list errors). Self-reference through the argument of a function-like macro (two more macro sets): the expansion terminates. `##` evaluated end to end (unlexer, source manager, lexer) on 21 token pairs against the lexing of the pasted text; FileLoader::load / mark_as_pragma_once as a state machine on a diamond of includes; eight more #define layouts. The shape rules about split_macro_args and the body substitution are the fallback of the expansion table; #define over an API-supplied macro and #undef of one; #pragma once marking evaluated on a real set. API defines: preprocess_initial_file walked on five define lists: the entry file sees one object-like macro per define, in order, its value lexed, no source location. #define over an existing macro with the same body but another kind or parameter count replaces it (macro lists compared by name).",
    "C13": "Also: the literal folding fast path of ImplicitConversion::apply agrees with evaluate_cast. evaluate_operator is read as a function: 8 unary / 20 binary operators x 9 constant kinds x sample values (plain and enum-wrapped, about 6500 folded evaluations) against the run-time semantics written in the rule; refusing to fold is always allowed. Context::end_enum read on model enums: an accepted enum keeps every enumerator's value (no wrap into the underlying type), sets that fit int or uint are accepted. parse_rootdefinition_enum on ten enumerator lists: an implicit enumerator is the previous value plus one in the previous value's type. parse_declarator on array dimensions of every constant kind: negative, fractional and >= 2^32 values are refused, others give exactly that length. FunctionRegistry::find_instantiation on a model registry for twelve argument lists: an instantiation is reused exactly for the same constants (kind and value) and types. evaluate_constexpr on SizeOf(T) over the type model: a folded sizeof is the type's size on the targets (component size x components for vectors and matrices); refusing to fold is allowed. ensure_struct_template walked with recording stand-ins: a default template argument is evaluated inside the instantiation scope with every earlier parameter bound. add_intrinsics walked (function table emptied) on an empty module: every pre-defined constant carries HLSL's value of that name. add_stage with scripted folded [numthreads] arguments of every integer kind at and beyond the ends of the uint range: the value as it is, or refused.",
    "C14": "Also: comment scanners start after their opener; no function outside the lexer and Token::is_whitespace singles out Whitespace or Comment; both location decoders select the file with one strict comparison. Layout inside a macro's parameter list does not change the definition (Macro::parse table). line_comment / block_comment walked on 24 byte strings (`/*/ x */`, `/**/`, splices and CR LF in line comments, unterminated comments, near misses): one comment token from opener to terminator; prepare_tokens walked on lists holding one token of every kind (exactly the trivia dropped, order and start locations kept, one Eof). Redefinition diagnostics: begin_struct / register_struct_template / begin_enum on a scope that already holds the name return the existing type's id (the position printed as 'previous definition').",
    "C15": "Also: generated global names are published to the set the local phase consults; ScopedName helpers derive from NameMap::get_name_qualified. NameMap::get_name_qualified read on a three-deep namespace model (path = namespaces outermost first, then the name). Who may read a source name: per exporter the IR entity kinds whose name is read without the NameMap are a frozen, reasoned set. The identifier an exporter writes for a reference to a function / global / struct is produced by the name map for that entity. parse_struct_internal on eight model definitions (own duplicates, redeclared inherited names, inheritance): a struct is accepted exactly when all member names it ends up with are distinct. generate_root_definitions of both exporters on a three-deep namespace model: definitions are wrapped in their namespaces outermost first.",
    "C16": "Also: opponents are skipped only for being the candidate itself; a function id enters a scope only where it is created and unconditionally. find_function_type evaluated as a whole on 819 scripted overload lists, and overload resolution end to end (write_function .. ImplicitConversion::find / get_rank, nothing scripted) on the model type registry: every set of two or three one-parameter overloads over 8 types and every pair of two-parameter overloads, in every declaration order, for 13 argument types - same verdict in every order, an exact match wins. get_struct_member_expression on a model struct in 18 declaration orders: every overload of the name is a candidate. check_existing_functions_in_scope on 867 declaration pairs over {in, out, inout} x {T, U}: a redeclaration exactly when the parameter lists are identical, otherwise another overload. Overloads that differ only in parameter direction (in / out / inout) in both declaration orders.",
    "C17": "Also: exporters read module.pipelines only as pipelines[<variable>]. build_pipeline read as a table (select, bind, export on the pipeline's own copy, in this order). The rules about which variable each step of build_pipeline is applied to are the fallback of the build table. parse_pipeline walked on a populated module for every property: a definition only adds a pipeline; shared globals, constant buffers and the other pipelines are untouched. A new pipeline is added after the pipelines declared before it.",
    "C18": "Also: every front-end call is reachable for every Target value (per-value edge feasibility with constant propagation through matches!); both analyse_bindings read type layers after remove_modifier. compile() read up to its preprocessor call for every Target x buffer-address flag: the predefined macros differ only in the values of RSSL_TARGET_*. analyse_bindings of both exporters evaluated on one-resource modules (every object type x six shapes x bindless): name, descriptor kind, count, slot and bindless flag do not depend on the target. build_pipeline read as a table for every target: same stages, thread-group sizes and pipeline state; for_spirv only for Vulkan. simplify_cbuffers evaluated on modules with 0-2 constant buffers: every cbuffer, empty or not, becomes one struct and one global on every target. With buffer addresses enabled every inline constant block is 8 bytes per binding placed in it (allocator vs the exporter's one-member-per-binding struct); is_buffer_address is walked. Both exporters file a binding under the group it was registered for, whatever the registration order (register_binding / finish walked). generate_function_param for scalar / array / array-of-array inputs as ordinary, pixel-entry and per-primitive parameters: the Vulkan-only decoration adds an attribute and changes nothing else.",
    "C19": "Also: each layout is rounded with its own alignment and those two layouts are the ones compared. Structs reached only through the type argument of a typed Load / Store call are still checked (realistic global sets). The list of typed load / store intrinsics whose element type must be validated is intrinsic_data's; each is evaluated through check_layout.",
}

# deciding methods added in the robustness round: appended to `technique`
TECH = {
    "C01": "; ImplicitConversion::apply read on a finite type-registry model; export o elaborate on the typed-expression and declaration models (both sides read by the finite-map reader)",
    "C02": "; trampoline decision and trampoline body read as tables over all parameter lists of length <= 3; plain/const verdict agreement of generate_expression on the typed-expression model",
    "C03": "; ImplicitConversion::find read on a finite type-registry model (value categories, modifiers, lvalue destinations); swizzle value category over all slot sequences <= 4; operator / member / subscript / call / return / initialiser elaboration evaluated over operand-type matrices and re-typed with the IR's own typing rule (finite-map reader over THIR, nothing executed)",
    "C05": "; reported entry-point names read as a table over ShaderStage; MIR dominance of the api_slot guard; analyse_bindings of both exporters evaluated on one-resource modules (finite-map reader)",
    "C06": "; Module::assign_api_bindings read on model modules (480 evaluations) against the allocation rule",
    "C07": "; NameMap::build and assign_api_bindings read on model modules with hash containers walked forwards and backwards",
    "C08": "; diagnostic source-line rendering read on files with multi-byte lines; admitted-kinds contradiction rule; enum definition model; apply_macros with located tokens",
    "C10": "; SourceManager location decoders read on a three-file model; literal tables (generate_literal, parse_literal) read by the finite-map reader",
    "C11": "; ConditionChain operations read on concrete chains, #if leaf parser and result test read as tables, condition pushes read as truth tables",
    "C12": "; Macro::parse read on eleven #define lines; value-origin trace of the include cache key",
    "C13": "; evaluate_cast, evaluate_operator and the literal folding of ImplicitConversion::apply read as complete tables on sample values against reference conversions / run-time operator semantics",
    "C14": "; SourceManager read on a three-file model; Macro::parse adjacency table; trivia-kind inventory with positive control; comment lexers and prepare_tokens walked by the finite-map reader on model texts / token lists",
    "C15": "; NameMap::build read on four model modules (uniqueness, reserved words, verbatim names, locals vs generated names, both hash orders)",
    "C16": "; find / get_rank read on a finite type-registry model; the numeric-rank tournament and the whole of find_function_type read on all 819 ordered candidate lists of length <= 3; write_function read end to end on overload sets over the type model in every declaration order",
    "C17": "; selection-loop skip condition read as a table; exporter reads of module.pipelines",
    "C18": "; per-Target reachability with constant propagation on MIR; sibling agreement of analyse_bindings; both analyse_bindings evaluated on model modules",
    "C19": "; check_layout / get_type_layout read on model modules against the packing rules",
    "C04": "; NameMap::build model rules under this property; export o elaborate fixpoint tables for expressions and declarations; printer site vs parser terminator table",
    "C09": "; operator parsers and declarator print/parse walked by the finite-map reader",
}

NOT_YET = "rules for this property are not built yet in this round (see DESIGN.md §10 build order); no claim is made"


def main():
    props = [json.loads(l) for l in open(os.path.join(VERIF, "properties.jsonl"))]
    checks = []
    na = []
    for p in props:
        pid = p["id"]
        if pid in CLAIMS:
            tech, text, note, ref = CLAIMS[pid]
            if pid in ADDED:
                text = text + " " + ADDED[pid]
            if pid in TECH:
                tech = tech + TECH[pid] + " (finite-map reader over the type-checked tree; nothing is compiled or run)"
            checks.append({
                "property_id": pid,
                "quick_cmd": "bin/check %s" % pid,
                "thorough_cmd": "bin/check %s --tier thorough" % pid,
                "evidence_file": "/verif/evidence/%s.json" % pid,
                "replay_cmd_template": "bin/check %s --replay {path}" % pid,
                "engine": "facts-driver+rules",
                "level_claimed": {"category": "other", "text": text, "design_ref": ref},
                "level_note": note,
                "technique": tech,
            })
        else:
            na.append({"property_id": pid, "reason": NA.get(pid, NOT_YET)})
    man = {
        "version": 1,
        "setup_cmd": "cd /verif/engine/facts-driver && CARGO_NET_OFFLINE=true cargo build --release --offline",
        "hooks": {
            "guard": "trark_rssl_verif",
            "enable": "none: the analysis reads the compiler's view of the unmodified sources (no hooks in /repo)",
            "baseline_off_cmd": "cd /repo && cargo test --workspace --no-fail-fast --offline",
            "source_commits": [],
            "add_only": True,
        },
        "engines": [
            {"name": "facts-driver+rules", "path": "/verif/engine",
             "serves_properties": sorted(CLAIMS),
             "kind_free_text": "rustc_private driver (THIR + MIR facts of the type-checked workspace, injected with "
                               "RUSTC_WORKSPACE_WRAPPER under cargo +nightly check) and a Python rule engine: table "
                               "extraction and writer/reader agreement, dominance / must-pass-through on MIR CFGs, "
                               "value-origin slices on THIR, call-graph reachability, hash-order and abort inventories"},
        ],
        "checks": checks,
        "not_applicable": na,
        "notes": "Technique family: static analysis only. Every check re-extracts facts from /repo's current working tree. "
                 "known_findings.json lists genuine defects by exact rule-instance key and the repaired ones (10 fix: commits in /repo). "
                 "seeded/ holds 38 independently produced breaking changes with the checks that report them (seeded/MATRIX.md); the thorough tier replays them. benign/ holds 90 independently produced behaviour-preserving refactorings on which no check may alarm (bin/trybenign).",
    }
    with open(os.path.join(VERIF, "MANIFEST.json"), "w") as f:
        json.dump(man, f, indent=1)
    print("MANIFEST.json: %d checks, %d not_applicable" % (len(checks), len(na)))


NA = {}

if __name__ == "__main__":
    main()
