#!/usr/bin/env python3
"""Regenerates engine/selftest/mutants/*.diff from the table below (one broken rule instance each).
Each mutant is a textual replacement against /repo's current tree; the diff and the keys that must be
reported are stored. Run: python3 engine/selftest/make_mutants.py"""
import difflib
import json
import os
import sys

REPO = "/repo"
OUT = os.path.join(os.path.dirname(os.path.abspath(__file__)), "mutants")

M = [
 # (pid, name, file, old, new, expect keys (any of))
 ("C01", "op-subtract-as-add", "hlsl/src/ast_generate.rs", "Subtract => Form::Binary(ast::BinOp::Subtract),", "Subtract => Form::Binary(ast::BinOp::Add),", ["C01.op/Binary::Subtract"]),
 ("C01", "binary-operands-swapped", "hlsl/src/ast_generate.rs", "            let left = generate_expression(&exprs[0], context)?;\n            let right = generate_expression(&exprs[1], context)?;", "            let left = generate_expression(&exprs[1], context)?;\n            let right = generate_expression(&exprs[0], context)?;", ["C01.shape/generate_intrinsic_op/BinaryOperation.1"]),
 ("C01", "ternary-arms-swapped", "hlsl/src/ast_generate.rs", "            ast::Expression::TernaryConditional(expr_cond, expr_true, expr_false)", "            ast::Expression::TernaryConditional(expr_cond, expr_false, expr_true)", ["C01.shape/generate_expression/TernaryConditional.1"]),
 ("C01", "intrinsic-name", "hlsl/src/ast_generate.rs", 'Exp2 => Form::Invoke("exp2"),', 'Exp2 => Form::Invoke("exp"),', ["C01.intrinsic/Exp2"]),
 ("C01", "typer-ge-as-gt", "typer/src/typer/expressions.rs", "ast::BinOp::GreaterEqual => ir::IntrinsicOp::GreaterEqual,", "ast::BinOp::GreaterEqual => ir::IntrinsicOp::GreaterThan,", ["C01.op/Binary::GreaterEqual"]),
 ("C02", "payload-passed-as-mesh", "msl/src/generator.rs", "                ast::Expression::Identifier(ast::ScopedIdentifier::trivial(PAYLOAD_OUTPUT_NAME)),\n            )),", "                ast::Expression::Identifier(ast::ScopedIdentifier::trivial(MESH_OUTPUT_NAME)),\n            )),", ["C02.thread/ident/PayloadOutput"]),
 ("C02", "usage-skips-false-arm", "ir/src/usage_analysis.rs", "            gather_usage_for_expression(expr_false, usage);\n", "", ["C02.usage/gather_usage_for_expression/TernaryConditional.2"]),
 ("C02", "inout-copy-in-inverted", "msl/src/generator.rs", "init: if param.param_type.input_modifier == ir::InputModifier::InOut {", "init: if param.param_type.input_modifier != ir::InputModifier::InOut {", ["C02.out/copy-in-out"]),
 ("C03", "const-guard-disabled", "typer/src/typer/expressions.rs", "                .is_const\n            {\n                return Err(TyperError::MutableRequired(lhs.get_location()));", "                .is_const\n                && false\n            {\n                return Err(TyperError::MutableRequired(lhs.get_location()));", ["C03.assign/const/Assignment"]),
 ("C03", "rvalue-to-lvalue-allowed", "typer/src/casting.rs", "(&Rvalue, &Lvalue) => return Err(()),\n            (&Rvalue, &Rvalue) | (&Lvalue, &Lvalue) => (source.0, dest.0, None),", "(&Rvalue, &Rvalue) | (&Lvalue, &Lvalue) | (&Rvalue, &Lvalue) => (source.0, dest.0, None),", ["C03.conv-table/Rvalue-to-Lvalue"]),
 ("C03", "assignment-rhs-unconverted", "typer/src/typer/expressions.rs", "let rhs_final = rhs_cast.apply(rhs_ir, &mut context.module);\n                    let i = match *op {", "let rhs_final = rhs_ir;\n                    let i = match *op {", ["C03.through/find-applied/parse_expr_binop", "C03.through/binop-operand-1"]),
 ("C04", "register-letter", "ast/src/ast_globals.rs", 'RegisterType::U => write!(f, "u"),', 'RegisterType::U => write!(f, "t"),', ["C04.reg/letter/U"]),
 ("C04", "attribute-name", "hlsl/src/ast_generate.rs", 'name: Vec::from([Located::none("maxvertexcount".to_string())]),', 'name: Vec::from([Located::none("maxvertexcounts".to_string())]),', ["C04.attr/maxvertexcounts"]),
 ("C05", "register-space-off-by-one", "hlsl/src/ast_generate.rs", "space: if slot.set != 0 { Some(slot.set) } else { None },", "space: if slot.set != 0 { Some(slot.set + 1) } else { None },", ["C05.slot/hlsl/register-space"]),
 ("C05", "msl-entry-name", "src/compile.rs", 'ShaderStage::Mesh => "MeshShaderEntry",', 'ShaderStage::Mesh => "MeshEntry",', ["C05.entry/msl/Mesh"]),
 ("C05", "msl-id-off-by-one", "msl/src/generator/pipeline.rs", "ast::Literal::IntUntyped(index as u64),", "ast::Literal::IntUntyped(index as u64 + 1),", ["C05.slot/msl/id-attribute"]),
 ("C06", "post-update-slot", "ir/src/ir_module.rs", "                                    let slot = *o.get();\n                                    *o.get_mut() += slot_count;\n                                    slot", "                                    *o.get_mut() += slot_count;\n                                    *o.get()", ["C06.alloc/plain"]),
 ("C06", "metal-two-slot-kind-missing", "ir/src/ir_module.rs", "                            | ObjectType::RWBufferAddress\n", "", ["C06.alloc/addresses"]),
 ("C06", "msl-static-samplers-have-slots", "src/compile.rs", "metal_slot_layout: true,\n            static_samplers_have_slots: false,", "metal_slot_layout: true,\n            static_samplers_have_slots: true,", ["C06.params/Msl/static_samplers_have_slots"]),
 ("C07", "required-globals-unsorted", "msl/src/generator.rs", "        required_globals.sort();\n", "", ["C07.hash/analyse_globals/for-HashSet"]),
 ("C07", "name-vec-unsorted", "ir/src/name_generator.rs", "name_to_symbol_vec.sort_by(|l, r| String::cmp(l.0, r.0));", "", ["C07.hash/build/from_iter", "C07.sort-key/build/name_to_symbol_vec"]),
 ("C08", "macro-disable-removed", "preprocess/src/preprocess.rs", "            macro_disabled[macro_index] = true;\n", "", ["C08.macro/disable-bracket"]),
 ("C08", "evaluator-unchecked-add", "typer/src/evaluator.rs", "ir::Constant::UInt32(input) => ir::Constant::UInt32(!input),", "ir::Constant::UInt32(input) => ir::Constant::UInt32(!input + 1),", ["C08.arith/rssl_typer/evaluate_operator/Overflow(Add)#0"]),
 ("C08", "entry-point-without-body-unwrapped", "typer/src/typer/pipelines.rs", "        Some(function_impl) => function_impl,\n        // The entry point is declared but never defined\n        None => return Err(TyperError::PipelineEntryPointFunctionUnknown(location)),\n    };", "        Some(function_impl) => function_impl,\n        None => panic!(\"entry point without a body\"),\n    };", ["C08.pipeline/entry-without-body"]),
 ("C02", "semantic-attribute-of-another-quantity", "msl/src/generator.rs", 'GroupIndex => "thread_index_in_threadgroup",', 'GroupIndex => "thread_index_in_simdgroup",', ["C02.semantic/metal-attribute"]),
 ("C03", "matrix-element-bounds-swapped", "typer/src/typer/expressions.rs", "let l = if first_value.is_none() { x } else { y };", "let l = if first_value.is_none() { y } else { x };", ["C03.matrix-elements/bounds"]),
 ("C05", "address-type-by-vk-flag", "hlsl/src/ast_generate.rs", "BufferAddress | RWBufferAddress if context.module.flags.requires_buffer_address => {", "BufferAddress | RWBufferAddress if context.module.flags.requires_vk_binding => {", ["C05.address-type/BufferAddress"]),
 ("C13", "ray-flag-value", "ir/src/intrinsic_data.rs", '("RAY_FLAG_SKIP_TRIANGLES", 0x100),', '("RAY_FLAG_SKIP_TRIANGLES", 0x101),', ["C13.builtin/RAY_FLAG_SKIP_TRIANGLES"]),
 ("C09", "multiply-precedence", "formatter/src/formatter.rs", "                Multiply => 5,", "                Multiply => 6,", []),
 ("C09", "shift-spelling", "formatter/src/formatter.rs", '        RightShift => ">>",', '        RightShift => ">",', ["C09.optext/Binary::RightShift"]),
 ("C09", "assoc-assignment-left-to-right", "formatter/src/formatter.rs", "        16 => Associativity::RightToLeft,", "        16 => Associativity::LeftToRight,", []),
 ("C10", "span-end-off-by-one", "preprocess/src/lexer.rs", "                    self.current_offset as u32,\n                    next_location as u32,", "                    self.current_offset as u32,\n                    next_location as u32 + 1,", ["C10.tile/span"]),
 ("C10", "hex-wrapping-mul", "preprocess/src/lexer.rs", "        value = match value.checked_mul(16).and_then(|v| v.checked_add(d)) {", "        value = match Some(value.wrapping_mul(16)).and_then(|v| v.checked_add(d)) {", ["C10.int/digits_hex/checked"]),
 ("C11", "switch-inverted", "preprocess/src/preprocess.rs", "ConditionState::DisabledInner if active => ConditionState::Enabled,", "ConditionState::DisabledInner if !active => ConditionState::Enabled,", ["C11.fsm/switch/DisabledInner,active"]),
 ("C11", "undef-ungated", "preprocess/src/preprocess.rs", '"undef" => {\n            if skip {\n                return Ok(());\n            }', '"undef" => {', ["C11.gate/define/undef:_macros.retain"]),
 ("C11", "le-as-lt", "preprocess/src/condition_parser.rs", "BinOp::LessEqual => u64::from(left <= right),", "BinOp::LessEqual => u64::from(left < right),", ["C11.eval/apply/LessEqual"]),
 ("C12", "redefine-keeps-old", "preprocess/src/preprocess.rs", "            macros.retain(|m| m.name != macro_def.name);\n", "", ["C12.redef/remove-before-push"]),
 ("C12", "comma-depth", "preprocess/src/preprocess.rs", "                if brace_scope == 0 {\n                    // Next argument", "                if brace_scope <= 1 {\n                    // Next argument", ["C12.args/comma-at-depth-0"]),
 ("C13", "uint-sub-unchecked", "typer/src/evaluator.rs", "ir::Constant::UInt32(lhs.wrapping_sub(*rhs))", "ir::Constant::UInt32(lhs - rhs)", ["C13.wrap/evaluate_operator/Subtract/UInt32/Overflow(Sub)"]),
 ("C13", "gt-operands-swapped", "typer/src/evaluator.rs", "(ir::Constant::Int32(lhs), ir::Constant::Int32(rhs)) => ir::Constant::Bool(lhs > rhs),", "(ir::Constant::Int32(lhs), ir::Constant::Int32(rhs)) => ir::Constant::Bool(rhs > lhs),", ["C13.op/GreaterThan/Int32xInt32"]),
 ("C14", "comment-not-whitespace", "text/src/tokens.rs", "Token::Endline | Token::PhysicalEndline | Token::Whitespace | Token::Comment", "Token::Endline | Token::PhysicalEndline | Token::Whitespace", ["C14.ws/is_whitespace/Comment"]),
 ("C14", "reserve-two", "text/src/location.rs", "self.next_location = self.next_location.offset(file_size + 1);", "self.next_location = self.next_location.offset(file_size + 2);", ["C14.line/reserve/add_file"]),
 ("C15", "generated-name-not-inserted", "ir/src/name_generator.rs", "                            if used_names.insert(candidate.clone()) {\n                                used_names_all_scopes.insert(candidate.clone());", "                            if !used_names.contains(&candidate) {\n                                used_names_all_scopes.insert(candidate.clone());", ["C15.unique/model/overloads-and-locals"]),
 ("C15", "reserved-entry-removed", "hlsl/src/names.rs", '    "asuint",\n', "", ["C15.builtins/hlsl/asuint"]),
 ("C16", "first-candidate-wins", "typer/src/typer/expressions.rs", "if casts.len() == 1 {", "if !casts.is_empty() {", ["C16.unique/ok-only-when-single"]),
 ("C16", "equal-disqualifies", "typer/src/typer/expressions.rs", "ConversionPriority::Equal => {}", "ConversionPriority::Equal => not_worse_than = false,", ["C16.sym/only-worse-disqualifies"]),
 ("C17", "reverse-order", "src/compile.rs", "for pipeline in &ir.pipelines {", "for pipeline in ir.pipelines.iter().rev() {", ["C17.select/source-order"]),
 ("C17", "duplicate-check-dropped", "typer/src/typer/pipelines.rs", "        return Err(TyperError::PipelineDuplicate(pipeline.name.location));", "        let _ = TyperError::PipelineDuplicate(pipeline.name.location);", ["C17.dup/unique-names"]),
 ("C18", "vulkan-flag-in-function-export", "hlsl/src/ast_generate.rs", "let return_type = generate_type(sig.return_type.return_type, context)?;", "let return_type = generate_type(sig.return_type.return_type, context)?; if context.module.flags.requires_vk_binding { attributes.clear(); }", ["C18.confine/generate_function_inner"]),
 ("C12", "macro-arguments-not-expanded", "preprocess/src/preprocess.rs", "                let subbed_text = apply_macros_internal(\n                    arg.to_vec(),\n                    macro_defs,\n                    macro_disabled,\n                    false,\n                    source_manager,\n                )?;", "                let subbed_text = arg.to_vec();", []),
 ("C12", "macro-arguments-fresh-disabled-set", "preprocess/src/preprocess.rs", "                let subbed_text = apply_macros_internal(\n                    arg.to_vec(),\n                    macro_defs,\n                    macro_disabled,\n                    false,\n                    source_manager,\n                )?;", "                let subbed_text = apply_macros(arg, macro_defs, false, source_manager)?;", []),
 ("C08", "macro-arguments-fresh-disabled-set", "preprocess/src/preprocess.rs", "                let subbed_text = apply_macros_internal(\n                    arg.to_vec(),\n                    macro_defs,\n                    macro_disabled,\n                    false,\n                    source_manager,\n                )?;", "                let subbed_text = apply_macros(arg, macro_defs, false, source_manager)?;", []),
 ("C08", "lexer-error-slice-asserted-inside-input", "preprocess/src/lexer.rs", "                debug_assert!(\n                    rest.is_empty()\n                        || self.input_bytes.as_ptr_range().end == rest.as_ptr_range().end\n                );", "                debug_assert!(self.input_bytes.as_ptr_range().end == rest.as_ptr_range().end);", []),
 ("C09", "enum-value-printed-at-full-level", "formatter/src/formatter.rs", "            output.push_str(\" = \");\n            format_expression_no_seq(expr, output, context)?;\n        }\n\n        output.push(',');", "            output.push_str(\" = \");\n            format_expression(expr, output, context)?;\n        }\n\n        output.push(',');", []),
 ("C09", "template-argument-comma-level-only", "formatter/src/formatter.rs", "            format_subexpression(expr, 7, OperatorSide::CommaList, output, context)", "            format_subexpression(expr, 17, OperatorSide::CommaList, output, context)", []),
 ("C04", "initialiser-printed-at-full-level", "formatter/src/formatter.rs", "ast::Initializer::Expression(expr) => format_expression_no_seq(expr, output, context)?,", "ast::Initializer::Expression(expr) => format_expression(expr, output, context)?,", []),
 ("C01", "groupshared-exported-as-static", "hlsl/src/ast_generate.rs", "ir::GlobalStorage::GroupShared => Some(ast::TypeModifier::GroupShared),", "ir::GlobalStorage::GroupShared => Some(ast::TypeModifier::Static),", []),
 ("C01", "inout-exported-as-out", "hlsl/src/ast_generate.rs", "ir::InputModifier::InOut => Some(ast::TypeModifier::InOut),", "ir::InputModifier::InOut => Some(ast::TypeModifier::Out),", []),
 ("C04", "interpolation-sample-as-centroid", "hlsl/src/ast_generate.rs", "ir::InterpolationModifier::SamplePerspective => &[ast::TypeModifier::Sample],", "ir::InterpolationModifier::SamplePerspective => &[ast::TypeModifier::Centroid],", []),
 ("C02", "msl-static-local-dropped", "msl/src/generator.rs", "        ir::LocalStorage::Static => Some(ast::TypeModifier::Static),", "        ir::LocalStorage::Static => None,", []),
 ("C18", "hlsl-binding-count-ignores-array", "hlsl/src/ast_generate.rs", "                    descriptor_count,\n                    is_bindless: decl.is_bindless,\n                    is_used: true, // We do not currently check for usage", "                    descriptor_count: Some(1),\n                    is_bindless: decl.is_bindless,\n                    is_used: true, // We do not currently check for usage", []),
 ("C18", "msl-bindless-flag-dropped", "msl/src/generator/pipeline.rs", "                    is_bindless: decl.is_bindless,\n                    is_used: true, // We will update this later", "                    is_bindless: false,\n                    is_used: true, // We will update this later", []),
 ("C09", "float32-printed-without-suffix", "formatter/src/formatter.rs", 'ast::Literal::Float32(v) => write!(output, "{v}f").unwrap(),', 'ast::Literal::Float32(v) => write!(output, "{v}").unwrap(),', []),
 ("C03", "swizzle-type-drops-modifier", "ir/src/ir_expressions.rs", "                let ty = module.type_registry.combine_modifier(ty, vec_mod);", "                let ty = { let _ = vec_mod; ty };", []),
 ("C03", "casts-applied-from-first", "typer/src/typer/expressions.rs", ".map(|(index, value)| casts[index].apply(value, &mut context.module))", ".map(|(index, value)| casts[index.min(0)].apply(value, &mut context.module))", []),
 ("C03", "return-value-unconverted", "typer/src/typer/statements.rs", "                    kind: ir::StatementKind::Return(Some(\n                        rhs_cast.apply(expr_ir, &mut context.module),\n                    )),", "                    kind: ir::StatementKind::Return(Some({ let _ = &rhs_cast; expr_ir })),", []),
 ("C03", "constructor-slot-arity", "typer/src/typer/expressions.rs", "slots.push(ir::ConstructorSlot { arity, expr });", "slots.push(ir::ConstructorSlot { arity: arity.min(1), expr });", []),
 ("C13", "negative-literal-as-count", "ir/src/ir_types.rs", "Constant::IntLiteral(v) if *v >= 0 && *v <= u64::MAX as i128 => Some(*v as u64),", "Constant::IntLiteral(v) if *v <= u64::MAX as i128 => Some(*v as u64),", []),
 ("C08", "scope-walk-from-start", "typer/src/typer/scopes.rs", "            let outer = current;", "            let outer = start;", []),
 ("C08", "blend-state-eight", "typer/src/typer/pipelines.rs", '            | "BlendState5" | "BlendState6" | "BlendState7" => {', '            | "BlendState5" | "BlendState6" | "BlendState7" | "BlendState8" => {', []),
 ("C15", "qualified-path-reversed", "ir/src/name_generator.rs", "            segmented_name.insert(0, current_name.name.clone());", "            segmented_name.push(current_name.name.clone());", []),
 ("C10", "u32-suffix-unchecked", "preprocess/src/lexer.rs", "        Some(IntType::Unsigned32) => match u32::try_from(value) {\n            Ok(value) => Token::LiteralIntUnsigned32(u64::from(value)),\n            Err(_) => return literal_too_large(start_input),\n        },", "        Some(IntType::Unsigned32) => Token::LiteralIntUnsigned32(value & 0xffff_ffff),", []),
 ("C10", "exponent-sign-lost", "preprocess/src/lexer.rs", "    text.push_str(&exponent.to_string());", "    text.push_str(&exponent.abs().to_string());", []),
 ("C11", "and-binds-looser-than-or", "preprocess/src/condition_parser.rs", "[Token::VerticalBarVerticalBar, rest @ ..] => Ok((rest, BinOp::BooleanOr)),", "[Token::AmpersandAmpersand, rest @ ..] => Ok((rest, BinOp::BooleanAnd)),", []),
 ("C18", "layout-validation-hlsl-only", "src/compile.rs", "    if args.validate_layout_consistency\n        && let Err(err) = ir::layout_checker::check_layout(&ir)", "    if args.validate_layout_consistency\n        && !matches!(args.target, Target::Msl)\n        && let Err(err) = ir::layout_checker::check_layout(&ir)", []),
 ("C17", "name-filter-dropped", "src/compile.rs", "            if let Some(name) = args.pipeline_name\n                && pipeline.name.node != name\n            {\n                continue;\n            }\n", "", []),
 ("C19", "validation-not-gated", "src/compile.rs", "if args.validate_layout_consistency\n        && let Err(err) = ir::layout_checker::check_layout(&ir)", "if !args.no_pipeline_mode\n        && let Err(err) = ir::layout_checker::check_layout(&ir)", ["C19.wire/iff-enabled"]),
 ("C19", "struct-align-up-removed", "ir/src/layout_checker.rs", "layout.size = layout.size.next_multiple_of(member_layout.align);\n", "", ["C19.shape/layout/Metal", "C19.shape/verdict"]),
]


def main():
    # the rule instances that report each mutant on the current engine (written by bin/refresh_mutants) override the
    # lists typed into the table above
    exp_path = os.path.join(os.path.dirname(os.path.abspath(__file__)), "expected_keys.json")
    EXP = json.load(open(exp_path)) if os.path.exists(exp_path) else {}
    os.makedirs(OUT, exist_ok=True)
    for fn in os.listdir(OUT):
        os.remove(os.path.join(OUT, fn))
    n = 0
    for pid, name, rel, old, new, keys in M:
        p = os.path.join(REPO, rel)
        src = open(p).read()
        if src.count(old) < 1:
            print("SKIP (pattern not found): %s-%s" % (pid, name))
            continue
        dst = src.replace(old, new, 1)
        diff = "".join(difflib.unified_diff(src.splitlines(True), dst.splitlines(True), "a/" + rel, "b/" + rel))
        base = os.path.join(OUT, "%s-%s" % (pid, name))
        open(base + ".diff", "w").write(diff)
        json.dump({"property": pid, "name": name, "file": rel, "expect_keys": EXP.get("%s-%s" % (pid, name), keys)}, open(base + ".json", "w"), indent=1)
        n += 1
    print("wrote %d mutants" % n)


if __name__ == "__main__":
    main()
