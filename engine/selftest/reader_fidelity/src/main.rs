//! Differential test of the finite-map reader (engine/rules/interp.py): small pure functions over std APIs.
//! `cargo run` prints, for every case and every input of a fixed grid, the Debug rendering of the result (or PANIC);
//! bin/reader_fidelity evaluates the same functions from their THIR with the reader and compares.
#![allow(clippy::all, unused)]
use std::collections::{HashMap, HashSet};

#[derive(Debug, Clone, Copy, PartialEq, Eq, PartialOrd, Ord, Default)]
enum Kind {
    #[default]
    Small,
    Even,
    Big(i64),
}

#[derive(Debug, Clone, PartialEq, Default)]
struct Rec {
    n: i64,
    tag: Kind,
    items: Vec<i64>,
}

impl From<i64> for Kind {
    fn from(v: i64) -> Kind {
        if v > 4 { Kind::Big(v) } else if v % 2 == 0 { Kind::Even } else { Kind::Small }
    }
}

type A<'a> = (i64, i64, &'a str, &'a [i64]);

fn c01_arith(x: A) -> i64 { x.0.wrapping_mul(3).wrapping_sub(x.1) }
fn c02_divrem(x: A) -> (i64, i64) { (x.0 / (x.1.abs() + 1), x.0 % (x.1.abs() + 1)) }
fn c03_checked(x: A) -> Option<i64> { x.0.checked_div(x.1).and_then(|q| q.checked_mul(1 << 40)) }
fn c04_casts(x: A) -> (u8, i8, u32, i32, u64) { (x.0 as u8, x.0 as i8, x.1 as u32, (x.0 * 1_000_000_007) as i32, x.1 as u64) }
fn c05_shifts(x: A) -> (i64, u32, i32) { (x.0 << (x.1 & 7), (x.0 as u32).wrapping_shl(x.1 as u32), (x.0 as i32).wrapping_shr(x.1 as u32)) }
fn c06_bits(x: A) -> (i64, i64, i64, i64, u32) { (x.0 & x.1, x.0 | x.1, x.0 ^ x.1, !x.0, !(x.1 as u32)) }
fn c07_minmax(x: A) -> (i64, i64, i64) { (x.0.min(x.1), std::cmp::max(x.0, x.1), x.0.clamp(-1, 2)) }
fn c08_cmp(x: A) -> (std::cmp::Ordering, bool, bool) { (x.0.cmp(&x.1), x.0 <= x.1, (x.0, x.1) < (x.1, x.0)) }
fn c09_float(x: A) -> (f64, f32, bool, i64) { let f = x.0 as f64 / 4.0; (f * 1.5, f as f32 + 0.1, f.fract() == 0.0, (f * 2.7) as i64) }
fn c10_float_edge(x: A) -> (f64, bool, bool, u8) { let z = x.0 as f64 / x.1 as f64; (z, z.is_nan(), z.is_infinite(), z as u8) }
fn c11_str_basic(x: A) -> (usize, bool, bool, Option<usize>) { (x.2.len(), x.2.is_empty(), x.2.starts_with("he"), x.2.find('_')) }
fn c12_str_chars(x: A) -> (usize, String, Option<char>) { (x.2.chars().count(), x.2.chars().rev().collect::<String>(), x.2.chars().nth(1)) }
fn c13_str_build(x: A) -> String { let mut s = String::new(); s.push_str(x.2); s.push('-'); s.push_str(&x.0.to_string()); s }
fn c14_format(x: A) -> String { format!("{}:{:?}:{}", x.0, x.2, x.3.len()) }
fn c15_split(x: A) -> Vec<String> { x.2.split(',').map(|p| p.trim().to_string()).collect() }
fn c16_bytes(x: A) -> Vec<u8> { x.2.as_bytes().iter().map(|b| b.wrapping_add(1)).collect() }
fn c17_vec_basic(x: A) -> (usize, Option<i64>, Option<i64>, bool) { (x.3.len(), x.3.first().copied(), x.3.last().copied(), x.3.contains(&2)) }
fn c18_iter_chain(x: A) -> Vec<i64> { x.3.iter().map(|v| v * 2).filter(|v| *v > 2).chain(std::iter::once(x.0)).collect() }
fn c19_fold(x: A) -> i64 { x.3.iter().fold(x.0, |acc, v| acc * 2 + v) }
fn c20_sum_minmax(x: A) -> (i64, Option<i64>, Option<i64>) { (x.3.iter().sum(), x.3.iter().copied().min(), x.3.iter().copied().max()) }
fn c21_position(x: A) -> (Option<usize>, Option<usize>, bool, bool) { (x.3.iter().position(|v| *v == 2), x.3.iter().rposition(|v| *v == 2), x.3.iter().any(|v| *v < 0), x.3.iter().all(|v| *v > 0)) }
fn c22_sort_dedup(x: A) -> Vec<i64> { let mut v = x.3.to_vec(); v.sort(); v.dedup(); v.reverse(); v }
fn c23_sort_by_key(x: A) -> Vec<i64> { let mut v = x.3.to_vec(); v.sort_by_key(|k| (k.abs(), *k)); v }
fn c24_enumerate_zip(x: A) -> Vec<(usize, i64, i64)> { x.3.iter().enumerate().zip(x.3.iter().rev()).map(|((i, a), b)| (i, *a, *b)).collect() }
fn c25_slices(x: A) -> (Vec<i64>, Vec<i64>) { let n = x.3.len().min(2); (x.3[..n].to_vec(), x.3[n..].to_vec()) }
fn c26_index_panic(x: A) -> i64 { x.3[(x.0.unsigned_abs() as usize) % 4] }
fn c27_split_first(x: A) -> Option<(i64, usize)> { x.3.split_first().map(|(h, t)| (*h, t.len())) }
fn c28_slice_pat(x: A) -> i64 { match x.3 { [] => -1, [a] => *a, [a, .., b] => a * 10 + b } }
fn c29_option(x: A) -> (Option<i64>, i64, i64, bool) { let o = if x.0 > 0 { Some(x.0) } else { None }; (o.map(|v| v + 1), o.unwrap_or(9), o.map_or(7, |v| v * 2), o.is_some_and(|v| v > 1)) }
fn c30_option2(x: A) -> (Option<i64>, Option<(i64, i64)>, Option<i64>, Result<i64, String>) { let o = (x.0 % 2 == 0).then_some(x.0); (o.filter(|v| *v != 0), o.zip(Some(x.1)), o.or(Some(-5)), o.ok_or_else(|| "odd".to_string())) }
fn c31_result(x: A) -> (Result<i64, String>, i64, Option<i64>) { let r: Result<i64, String> = if x.1 != 0 { Ok(x.0 / x.1) } else { Err(format!("div {}", x.0)) }; (r.clone().map(|v| v + 1).map_err(|e| e + "!"), r.clone().unwrap_or_default(), r.ok()) }
fn q(x: i64) -> Result<i64, String> { if x < 0 { Err("neg".into()) } else { Ok(x * 2) } }
fn c32_try(x: A) -> Result<i64, String> { let a = q(x.0)?; let b = q(x.1)?; Ok(a + b) }
fn c33_match_guard(x: A) -> &'static str { match (x.0, x.1) { (0, _) => "zero", (a, b) if a == b => "same", (a, _) if a < 0 => "neg", (1..=4, 0..=2) => "small", _ => "other" } }
fn c34_enum(x: A) -> (Kind, bool, Kind) { let k = Kind::from(x.0); (k, matches!(k, Kind::Big(v) if v > 10), Kind::default()) }
fn c35_enum_into(x: A) -> Vec<Kind> { x.3.iter().map(|v| (*v).into()).collect() }
fn c36_struct(x: A) -> Rec { let mut r = Rec { n: x.0, ..Default::default() }; r.items.push(x.1); r.items.extend_from_slice(x.3); r.tag = Kind::from(r.items.len() as i64); r }
fn c37_struct_eq(x: A) -> (bool, bool) { let a = Rec { n: x.0, tag: Kind::Even, items: x.3.to_vec() }; let mut b = a.clone(); b.n = x.1; (a == b, a.items == b.items) }
fn c38_loops(x: A) -> (i64, i64) { let mut n = 0; let mut i = 0; while i < x.0.abs() { if i == 3 { i += 1; continue; } n += i; i += 1; } let mut k = x.1.abs(); let steps = loop { if k <= 1 { break k + 100; } k /= 2; }; (n, steps) }
fn c39_for_range(x: A) -> Vec<i64> { let mut out = vec![]; for i in 0..(x.0.abs() % 5) { for j in (0..=i).rev() { if j == 2 { break; } out.push(i * 10 + j); } } out }
fn c40_labeled(x: A) -> i64 { let mut c = 0; 'outer: for i in 0..4 { for j in 0..4 { if i * j > x.0.abs() % 5 { break 'outer; } c += 1; } } c }
fn c41_hashset(x: A) -> (usize, bool, Vec<i64>) { let s: HashSet<i64> = x.3.iter().copied().collect(); let mut v: Vec<i64> = s.iter().copied().collect(); v.sort(); (s.len(), s.contains(&x.0), v) }
fn c42_hashmap(x: A) -> Vec<(i64, usize)> { let mut m: HashMap<i64, usize> = HashMap::new(); for v in x.3 { *m.entry(*v).or_insert(0) += 1; } let mut o: Vec<_> = m.into_iter().collect(); o.sort(); o }
fn c43_closure_capture(x: A) -> i64 { let k = x.1; let add = |v: i64| v + k; let mut total = 0; let mut acc = |v: i64| total += add(v); acc(x.0); acc(2); total }
fn c44_fn_pointer(x: A) -> i64 { fn twice(f: fn(i64) -> i64, v: i64) -> i64 { f(f(v)) } fn inc(v: i64) -> i64 { v + 1 } twice(inc, x.0) + twice(|v| v * 2, x.1) }
fn c45_binary_search(x: A) -> Result<usize, usize> { x.3.binary_search(&x.0) }
fn c46_retain_insert(x: A) -> Vec<i64> { let mut v = x.3.to_vec(); v.retain(|e| *e != 2); v.insert(0, x.0); if v.len() > 2 { v.remove(1); } v.truncate(3); v }
fn c47_windows_chunks(x: A) -> (Vec<i64>, Vec<usize>) { (x.3.windows(2).map(|w| w[1] - w[0]).collect(), x.3.chunks(2).map(|c| c.len()).collect()) }
fn c48_take_skip(x: A) -> (Vec<i64>, Vec<i64>, Vec<i64>) { (x.3.iter().copied().take_while(|v| *v > 0).collect(), x.3.iter().copied().skip_while(|v| *v > 1).collect(), x.3.iter().copied().skip(1).step_by(2).collect()) }
fn c49_find_map(x: A) -> (Option<i64>, Option<i64>, Vec<i64>) { (x.3.iter().find(|v| **v > 1).copied(), x.3.iter().find_map(|v| if *v < 0 { Some(v * 2) } else { None }), x.3.iter().filter_map(|v| (*v % 2 == 0).then(|| v / 2)).collect()) }
fn c50_try_from(x: A) -> (Result<u8, ()>, Result<u32, ()>, Option<usize>) { (u8::try_from(x.0).map_err(|_| ()), u32::try_from(x.1).map_err(|_| ()), usize::try_from(x.0).ok()) }
fn c51_int_helpers(x: A) -> (u32, u32, bool, u64, i64) { ((x.0 as u32).count_ones(), (x.1 as u32 | 1).leading_zeros(), (x.0 as u64).is_power_of_two(), (x.0.unsigned_abs()).next_multiple_of(4), x.0.rem_euclid(3)) }
fn c52_saturating(x: A) -> (u8, i8, u32) { ((x.0 as u8).saturating_add(250), (x.0 as i8).saturating_sub(100), (x.1 as u32).saturating_sub(3)) }
fn c53_mem(x: A) -> (Vec<i64>, Vec<i64>, i64) { let mut v = x.3.to_vec(); let t = std::mem::take(&mut v); let mut a = x.0; let old = std::mem::replace(&mut a, 5); (v, t, old + a) }
fn c54_tuple_destructure(x: A) -> i64 { let (a, (b, c)) = (x.0, (x.1, x.3.len() as i64)); let [p, q] = [a + b, c]; p * q }
fn c55_char_tests(x: A) -> Vec<bool> { x.2.chars().map(|c| c.is_ascii_digit() || c.is_alphabetic() && !c.is_uppercase()).collect() }
fn c56_parse(x: A) -> (Result<i64, ()>, Result<f64, ()>) { (x.2.trim().parse::<i64>().map_err(|_| ()), x.2.parse::<f64>().map_err(|_| ())) }
fn c57_unzip_partition(x: A) -> (Vec<i64>, Vec<bool>, Vec<i64>) { let (a, b): (Vec<i64>, Vec<bool>) = x.3.iter().map(|v| (*v, *v > 1)).unzip(); let (e, _o): (Vec<i64>, Vec<i64>) = x.3.iter().partition(|v| **v % 2 == 0); (a, b, e) }
fn c58_nested_option(x: A) -> Option<i64> { let v = x.3.get(x.0.unsigned_abs() as usize % 3)?; let w = x.3.get(*v as usize)?; Some(v + w) }
fn c59_let_else(x: A) -> i64 { let Some(v) = x.3.first() else { return -1 }; let [a, b, ..] = x.3 else { return *v }; a + b }
fn c60_strip(x: A) -> (Option<String>, Option<String>, String) { (x.2.strip_prefix("he").map(String::from), x.2.strip_suffix("d").map(str::to_string), x.2.replace('l', "L")) }
fn c61_display_floats(x: A) -> String { format!("{} {} {:?} {}", x.0 as f64 / 8.0, 1e21 * x.1 as f64, x.0 as f32 / 3.0, (x.1 as f64).powi(2)) }
fn c62_last_rev(x: A) -> (Option<i64>, Vec<i64>, Option<(usize, i64)>) { (x.3.iter().rev().skip(1).next().copied(), x.3.iter().rev().cloned().collect(), x.3.iter().copied().enumerate().max_by_key(|(_, v)| *v)) }
fn c63_assign_ops(x: A) -> (i64, u8) { let mut a = x.0; a += 3; a *= 2; a -= x.1; a %= 7; a <<= 1; a |= 1; let mut b = x.1 as u8; b = b.wrapping_sub(1); b ^= 0x0f; (a, b) }
fn c64_bool_ops(x: A) -> (bool, bool, bool) { let p = x.0 > 0; let r = x.1 > 0; (p & r, p | !r, p ^ r) }

// ---- second batch: references, mutation through methods, patterns, trait dispatch, formatting
#[derive(Debug, Clone, PartialEq)]
struct Counter { total: i64, seen: Vec<i64> }
impl Counter {
    fn new() -> Self { Counter { total: 0, seen: Vec::new() } }
    fn add(&mut self, v: i64) -> &mut Self { self.total += v; self.seen.push(v); self }
    fn top(&self) -> Option<&i64> { self.seen.last() }
    fn drain_big(&mut self, limit: i64) -> Vec<i64> { let (big, small): (Vec<i64>, Vec<i64>) = self.seen.iter().partition(|v| **v > limit); self.seen = small; big }
}
trait Shape { fn area(&self) -> i64; fn name(&self) -> String { "shape".to_string() } }
struct Sq(i64);
struct Rect { w: i64, h: i64 }
impl Shape for Sq { fn area(&self) -> i64 { self.0 * self.0 } fn name(&self) -> String { format!("sq{}", self.0) } }
impl Shape for Rect { fn area(&self) -> i64 { self.w * self.h } }
#[derive(Debug, Clone, PartialEq)]
enum Tree { Leaf(i64), Node(Box<Tree>, Box<Tree>) }
fn tree_sum(t: &Tree) -> i64 { match t { Tree::Leaf(v) => *v, Tree::Node(l, r) => tree_sum(l) + tree_sum(r) } }
fn build(d: i64, v: i64) -> Tree { if d <= 0 { Tree::Leaf(v) } else { Tree::Node(Box::new(build(d - 1, v)), Box::new(build(d - 1, v + 1))) } }

fn d01_methods(x: A) -> (i64, Option<i64>, Vec<i64>, usize) { let mut c = Counter::new(); c.add(x.0).add(x.1); for v in x.3 { c.add(*v); } let big = c.drain_big(1); (c.total, c.top().copied(), big, c.seen.len()) }
fn d02_trait_dispatch(x: A) -> (i64, String, i64, String) { let a = Sq(x.0); let b = Rect { w: x.1, h: 3 }; (a.area(), a.name(), b.area(), b.name()) }
fn d03_dyn(x: A) -> Vec<i64> { let shapes: Vec<Box<dyn Shape>> = vec![Box::new(Sq(x.0)), Box::new(Rect { w: x.1, h: 2 })]; shapes.iter().map(|s| s.area()).collect() }
fn d04_recursion(x: A) -> (i64, bool) { let t = build(x.0.abs() % 4, x.1); (tree_sum(&t), matches!(t, Tree::Node(..))) }
fn d05_iter_mut(x: A) -> Vec<i64> { let mut v = x.3.to_vec(); for e in v.iter_mut() { *e += x.0; } if let Some(l) = v.last_mut() { *l *= 2; } if v.len() > 1 { v.swap(0, 1); } v }
fn d06_while_let(x: A) -> Vec<i64> { let mut stack = x.3.to_vec(); let mut out = vec![]; while let Some(t) = stack.pop() { if t > 2 { stack.push(t - 2); } out.push(t); if out.len() > 12 { break; } } out }
fn d07_sort_cmp(x: A) -> Vec<(i64, i64)> { let mut v: Vec<(i64, i64)> = x.3.iter().map(|e| (e % 2, *e)).collect(); v.sort_by(|a, b| b.0.cmp(&a.0).then_with(|| a.1.cmp(&b.1))); v }
fn d08_binding_modes(x: A) -> i64 { let pair = (x.0, vec![x.1, 7]); let (ref a, ref b) = pair; let s: i64 = b.iter().sum(); match &pair { (n, v) if v.len() > 1 && *n > 0 => n + v[1], (n @ ..=0, _) => *n - s + a, _ => 0 } }
fn d09_at_patterns(x: A) -> String { match x.0 { n @ 1..=4 => format!("low{}", n), n @ (5 | 64) => format!("pick{}", n), n if n < 0 => "neg".into(), _ => String::from("zero") } }
fn d10_str_cmp(x: A) -> (bool, bool, std::cmp::Ordering, bool) { (x.2 < "hello", x.2 == "x_1, 42", x.2.cmp("h"), x.2.as_bytes().first() == Some(&b'h')) }
fn d11_char_ops(x: A) -> (Vec<u32>, Option<u32>, String) { (x.2.chars().take(3).map(|c| c as u32).collect(), x.2.chars().last().and_then(|c| c.to_digit(10)), x.2.bytes().filter(|b| b.is_ascii_alphabetic()).map(|b| (b as char).to_ascii_uppercase()).collect()) }
fn d12_write(x: A) -> String { use std::fmt::Write; let mut s = String::new(); write!(s, "{}", x.0).unwrap(); for v in x.3 { write!(s, ",{v}").unwrap(); } s.push_str(if x.1 > 0 { "+" } else { "-" }); s }
fn d13_option_mut(x: A) -> (Option<i64>, Option<i64>) { let mut o = if x.0 > 0 { Some(x.0) } else { None }; if let Some(v) = o.as_mut() { *v += 10; } let t = o.take(); (o, t.map(|v| v * x.1)) }
fn d14_shadow_blocks(x: A) -> i64 { let v = x.0; let v = { let v = v * 2; v + 1 }; let r = { let mut t = 0; for i in 0..3 { let v = v + i; t += v; } t }; r - v }
fn d15_tuple_struct(x: A) -> (i64, i64) { struct P(i64, i64); let p = P(x.0, x.1); let P(a, b) = p; let q = P(b, a); (q.0 - a, q.1 * 2) }
fn d16_array(x: A) -> ([i64; 3], i64, usize) { let mut a = [x.0; 3]; a[1] = x.1; a[2] += 1; let s = a.iter().sum(); (a, s, a.len()) }
fn d17_nested_closures(x: A) -> i64 { let k = x.0; let mk = |m: i64| move |v: i64| v * m + k; let f = mk(x.1); let g = mk(2); f(g(3)) }
fn d18_fold_tuple(x: A) -> (i64, i64) { x.3.iter().fold((0, 1), |(s, p), v| (s + v, p * (v % 3 + 1))) }
fn d19_early_return_loop(x: A) -> Option<usize> { for (i, v) in x.3.iter().enumerate() { if *v == x.0 { return Some(i); } if *v < 0 { return None; } } Some(99) }
fn d20_string_api(x: A) -> (String, bool, Option<&str>, usize) { let s = x.2.to_string(); (s.to_uppercase(), s.contains("lo w"), x.2.split(' ').nth(1), s.matches('l').count()) }
fn d21_int_parse_fmt(x: A) -> (String, String, String) { (format!("{:?}", x.3), format!("{}-{}", x.0, x.1), format!("{:?} {:?}", Some(x.0), (x.1, x.2))) }
fn d22_slices_eq(x: A) -> (bool, bool, bool) { (x.3 == [3, 1, 2], x.3.starts_with(&[3]), x.3.iter().rev().eq([2, 1, 3].iter())) }
fn d23_result_chain(x: A) -> Result<i64, String> { q(x.0).and_then(|v| q(v - 3)).or_else(|e| if x.1 > 0 { Ok(x.1) } else { Err(e + "!") }).map(|v| v + 1) }
fn d24_vec_of_vec(x: A) -> (Vec<Vec<i64>>, usize) { let mut g: Vec<Vec<i64>> = vec![Vec::new(); 3]; for v in x.3 { g[(v.rem_euclid(3)) as usize].push(*v); } let n = g.iter().map(|r| r.len()).max().unwrap_or(0); (g, n) }
fn d25_if_let_chain(x: A) -> i64 { if let Some(a) = x.3.first() && let Some(b) = x.3.last() && a != b { a - b } else if let [only] = x.3 { *only } else { -5 } }
fn d26_wrapping_mix(x: A) -> (u8, i16, u64) { let a = (x.0 as u8).wrapping_mul(37).wrapping_add(x.1 as u8); let b = (x.0 as i16).wrapping_neg().wrapping_abs(); let c = (x.1 as u64).wrapping_sub(1) >> 60; (a, b, c) }
fn d27_checked_chain(x: A) -> Option<u32> { u32::try_from(x.0).ok()?.checked_sub(1)?.checked_mul(x.1.unsigned_abs() as u32 + 1)?.checked_add(7) }
fn d28_extend_concat(x: A) -> Vec<i64> { let mut v = vec![x.0]; v.extend(x.3.iter().map(|e| e + 1)); v.extend_from_slice(&[x.1, x.1]); let w = [v.clone(), vec![0]].concat(); w }
fn d29_bool_short_circuit(x: A) -> (bool, i64) { let mut n = 0; let mut bump = || { n += 1; true }; let r = (x.0 > 0 && bump()) || (x.1 > 0 && bump() && bump()); (r, n) }
fn d30_default_struct(x: A) -> (Rec, bool) { let r = Rec::default(); let s = Rec { items: vec![x.0], ..r.clone() }; (s.clone(), r == Rec::default() && s != r) }

fn e01_iter_next_then_for(x: A) -> (Option<i64>, Vec<i64>, usize) { let mut it = x.3.iter(); let first = it.next().copied(); let mut rest = vec![]; for v in it { rest.push(*v + x.0); } (first, rest, x.3.len()) }
fn e02_iter_next_twice(x: A) -> (Option<i64>, Option<i64>, Option<i64>, Vec<i64>) { let v = x.3.to_vec(); let mut it = v.iter(); let a = it.next().copied(); let b = it.next_back().copied(); let c = it.next().copied(); let rest: Vec<i64> = it.copied().collect(); (a, b, c, rest) }
fn e03_try_for_each(x: A) -> (Result<(), i64>, i64) { let mut acc = 0; let r = x.3.iter().try_for_each(|v| if *v < 0 { Err(*v) } else { acc += *v; Ok(()) }); (r, acc) }
fn take_two(it: &mut std::slice::Iter<'_, i64>) -> i64 { it.next().copied().unwrap_or(0) * 10 + it.next().copied().unwrap_or(0) }
fn e04_iter_by_mut_ref(x: A) -> (i64, Vec<i64>, Vec<i64>) { let v = x.3.to_vec(); let mut it = v.iter(); let t = take_two(&mut it); let rest: Vec<i64> = it.copied().collect(); (t, rest, v) }
fn e05_into_iter_next(x: A) -> (Option<i64>, i64, Option<i64>) { let v = x.3.to_vec(); let mut it = v.into_iter(); let a = it.next(); let s: i64 = it.by_ref().take(2).sum(); (a, s, it.next()) }
fn e06_chars_next(x: A) -> (Option<char>, String, Option<char>) { let mut cs = x.2.chars(); let a = cs.next(); let b = cs.next_back(); let rest: String = cs.collect(); (a, rest, b) }
fn e07_range_next(x: A) -> (Option<i64>, Vec<i64>) { let mut r = 0..(x.0.clamp(0, 6)); let a = r.next(); (a, r.collect()) }
fn e08_peekable(x: A) -> (Option<i64>, Option<i64>, Vec<i64>) { let mut it = x.3.iter().copied().peekable(); let p = it.peek().copied(); let a = it.next(); let mut out = vec![]; while let Some(v) = it.next() { if let Some(n) = it.peek() { out.push(v + *n); } else { out.push(v); } } (p, a, out) }

enum Kw { Konst, Vol, Other(i64) }
impl std::fmt::Debug for Kw { fn fmt(&self, f: &mut std::fmt::Formatter) -> std::fmt::Result { match self { Kw::Konst => write!(f, "const"), Kw::Vol => f.write_str("volatile"), Kw::Other(n) => write!(f, "other{}", n) } } }
impl std::fmt::Display for Kw { fn fmt(&self, f: &mut std::fmt::Formatter) -> std::fmt::Result { match self { Kw::Konst => write!(f, "K"), Kw::Vol => write!(f, "V"), Kw::Other(n) => { write!(f, "<")?; write!(f, "{}", n * 2)?; f.write_str(">") } } } }
fn e09_user_fmt(x: A) -> String { let k = if x.0 > 1 { Kw::Konst } else if x.0 < 0 { Kw::Vol } else { Kw::Other(x.1) }; let mut s = String::new(); use std::fmt::Write; write!(s, "{:?} ", k).unwrap(); write!(s, " {k}|").unwrap(); s + &format!("{:?}/{}", k, k) }

fn bump(s: &mut String, n: &mut i64, flag: &mut bool) { s.push_str("ab"); s.push('c'); *n += 2; *n *= 3; *flag = !*flag; if *n > 10 { s.insert(0, '>'); } }
fn e10_mut_ref_locals(x: A) -> (String, i64, bool, usize) { let mut s = String::from(x.2); let mut n = x.0; let mut fl = x.1 > 0; bump(&mut s, &mut n, &mut fl); bump(&mut s, &mut n, &mut fl); let l = s.len(); (s, n, fl, l) }

fn e11_overflow_builtin(x: A) -> (i8, i8, u8) { let a = x.0 as i8; let b = a * 3; let c = -(a - 121); let mut u = x.1 as u8; u -= 1; u += 2; (b, c, u) }
fn e12_neg_min(x: A) -> i32 { let v: i32 = if x.0 > 4 { i32::MIN } else { x.0 as i32 }; -v }

fn e13_hashset_algebra(x: A) -> (Vec<i64>, Vec<i64>, usize, bool, bool, bool) { use std::collections::HashSet; let a: HashSet<i64> = x.3.iter().copied().collect(); let b: HashSet<i64> = [x.0, 2, 3].into_iter().collect(); let mut d: Vec<i64> = a.difference(&b).copied().collect(); d.sort(); let mut i: Vec<i64> = a.intersection(&b).copied().collect(); i.sort(); (d, i, a.union(&b).count(), a.is_subset(&b), b.is_superset(&a), a.is_disjoint(&b)) }

#[derive(Debug)] enum Wrap { One(i64), Pair(i64, i64) }
#[derive(Debug)] struct Cell(i64);
fn e14_ctor_as_fn(x: A) -> (Vec<Wrap>, Vec<i64>, Option<Wrap>) { let a: Vec<Wrap> = x.3.iter().copied().map(Wrap::One).collect(); let b: Vec<Cell> = x.3.iter().copied().map(Cell).collect(); let c = Some(x.0).map(|v| Wrap::Pair(v, x.1)); (a, b.iter().map(|c| c.0 + 1).collect(), c) }

fn e15_binary_search_by(x: A) -> (Result<usize, usize>, Result<usize, usize>, Vec<i64>) { let mut v = x.3.to_vec(); v.sort(); let a = v.binary_search_by(|e| e.cmp(&x.0)); let b = v.binary_search_by_key(&(x.1 * 2), |e| e * 2); let mut w = v.clone(); if let Err(i) = a { w.insert(i, x.0); } (a, b, w) }

struct Countdown { cur: i64, end: i64 }
impl Iterator for Countdown { type Item = i64; fn next(&mut self) -> Option<i64> { if self.cur <= self.end { None } else { self.cur -= 1; Some(self.cur) } } }
fn e16_user_iterator(x: A) -> (Option<i64>, Vec<i64>, bool, i64) { let mk = || Countdown { cur: x.0.clamp(-2, 6), end: x.1 }; let mut t = 0; for v in mk() { t += v * v; } (mk().find(|v| v % 2 == 0), mk().map(|v| v * 3).collect(), mk().any(|v| v == 1), mk().sum::<i64>() + t) }

fn e17_iter_sources(x: A) -> (Vec<i64>, Vec<i64>, Vec<i64>, Vec<Vec<i64>>) { let mut n = x.0; let a: Vec<i64> = std::iter::from_fn(|| { if n < 3 && n > -9 { n += 2; Some(n * x.1) } else { None } }).collect(); let mut k = 0; let b: Vec<i64> = std::iter::repeat_with(|| { k += x.1; k }).take(3).collect(); let c: Vec<i64> = std::iter::repeat(x.0).take(2).collect(); let mut d: Vec<Vec<i64>> = std::iter::repeat_with(Vec::new).take(2).collect(); d.extend(std::iter::repeat_with(Default::default).take(1)); (a, b, c, d) }

fn e18_euclid_and_bounds(x: A) -> (Option<i32>, Option<i32>, i32, i32, Option<u32>, i64, Vec<i64>) { let a = x.0 as i32; let b = x.1 as i32; let m = if x.0 == 64 { i32::MIN } else { a }; let d = if x.1 == -3 { -1 } else { b }; let w = x.3.to_vec(); let k = w[(x.0.unsigned_abs() as usize) % 6]; (m.checked_rem_euclid(d), m.checked_div_euclid(d), m.wrapping_rem_euclid(if d == 0 { 3 } else { d }), m.wrapping_div_euclid(if d == 0 { 3 } else { d }), (a as u32).checked_rem_euclid(b as u32), k, w[(x.1.unsigned_abs() as usize)..].to_vec()) }

fn main() {
    let avals = [-7i64, -1, 0, 1, 2, 5, 64];
    let bvals = [-3i64, 0, 1, 2];
    let svals = ["", "hello world", "x_1, 42"];
    let vvals: [&[i64]; 4] = [&[], &[3], &[3, 1, 2], &[1, 2, 2, 5, -4]];
    macro_rules! run { ($($name:ident),* $(,)?) => {{
        $( for (ai, a) in avals.iter().enumerate() { for (bi, b) in bvals.iter().enumerate() { for (si, s) in svals.iter().enumerate() { for (vi, v) in vvals.iter().enumerate() {
            let r = std::panic::catch_unwind(|| format!("{:?}", $name((*a, *b, *s, *v))));
            println!("{}|{}|{}|{}|{}|{}", stringify!($name), ai, bi, si, vi, r.unwrap_or_else(|_| "PANIC".to_string()));
        }}}} )*
    }}}
    std::panic::set_hook(Box::new(|_| {}));
    run!(c01_arith, c02_divrem, c03_checked, c04_casts, c05_shifts, c06_bits, c07_minmax, c08_cmp, c09_float, c10_float_edge, c11_str_basic, c12_str_chars, c13_str_build,
         c14_format, c15_split, c16_bytes, c17_vec_basic, c18_iter_chain, c19_fold, c20_sum_minmax, c21_position, c22_sort_dedup, c23_sort_by_key, c24_enumerate_zip,
         c25_slices, c26_index_panic, c27_split_first, c28_slice_pat, c29_option, c30_option2, c31_result, c32_try, c33_match_guard, c34_enum, c35_enum_into, c36_struct,
         c37_struct_eq, c38_loops, c39_for_range, c40_labeled, c41_hashset, c42_hashmap, c43_closure_capture, c44_fn_pointer, c45_binary_search, c46_retain_insert,
         c47_windows_chunks, c48_take_skip, c49_find_map, c50_try_from, c51_int_helpers, c52_saturating, c53_mem, c54_tuple_destructure, c55_char_tests, c56_parse,
         c57_unzip_partition, c58_nested_option, c59_let_else, c60_strip, c61_display_floats, c62_last_rev, c63_assign_ops, c64_bool_ops,
         d01_methods, d02_trait_dispatch, d03_dyn, d04_recursion, d05_iter_mut, d06_while_let, d07_sort_cmp, d08_binding_modes, d09_at_patterns, d10_str_cmp, d11_char_ops, d12_write,
         d13_option_mut, d14_shadow_blocks, d15_tuple_struct, d16_array, d17_nested_closures, d18_fold_tuple, d19_early_return_loop, d20_string_api, d21_int_parse_fmt, d22_slices_eq,
         d23_result_chain, d24_vec_of_vec, d25_if_let_chain, d26_wrapping_mix, d27_checked_chain, d28_extend_concat, d29_bool_short_circuit, d30_default_struct,
         e01_iter_next_then_for, e02_iter_next_twice, e03_try_for_each, e04_iter_by_mut_ref, e05_into_iter_next, e06_chars_next, e07_range_next, e08_peekable, e09_user_fmt, e10_mut_ref_locals, e11_overflow_builtin, e12_neg_min, e13_hashset_algebra, e14_ctor_as_fn, e15_binary_search_by, e16_user_iterator, e17_iter_sources, e18_euclid_and_bounds);
}
